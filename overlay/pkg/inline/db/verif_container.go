//go:build verif

package db

import (
	"github.com/glebziz/fs_db"
	"github.com/glebziz/fs_db/internal/di"
)

// VerifContainer exposes the DI container of an inline database to the simulation harness
// (to invoke the collector at chosen positions and to reach the worker pool).
func VerifContainer(d fs_db.DB) *di.Container {
	if x, ok := d.(*db); ok {
		return x.container
	}
	return nil
}
