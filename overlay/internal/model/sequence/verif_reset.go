//go:build verif

package sequence

import "sync/atomic"

// VerifReset makes the process-global counter look like that of a fresh process (optionally
// already advanced to base): the simulator starts every world with it.
func VerifReset(base uint64) { atomic.StoreUint64(&seq, base) }

// VerifPeek returns the current counter value.
func VerifPeek() uint64 { return atomic.LoadUint64(&seq) }
