//go:build verif

package sequence

import "sync/atomic"

// VerifReset makes the process-global counter look like that of a fresh process (optionally
// already advanced to base): the simulator starts every world with it.
func VerifReset(base uint64) { atomic.StoreUint64(&seq, base) }

// VerifAdvance draws n numbers at once: what a burst of other traffic in the process (another
// database of the same process, say) does to the shared counter.
func VerifAdvance(n uint64) { atomic.AddUint64(&seq, n) }

// VerifPeek returns the current counter value.
func VerifPeek() uint64 { return atomic.LoadUint64(&seq) }
