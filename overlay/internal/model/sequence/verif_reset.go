//go:build verif

package sequence

import "sync/atomic"

// The accessors below work whether the counter is declared as a bare uint64 (used with the
// atomic functions) or as an atomic.Uint64: a change of that declaration in the code under test
// must not stop the checks from building.

func verifCounter(op func(p *uint64) uint64, opT func(p *atomic.Uint64) uint64) uint64 {
	switch p := any(&seq).(type) {
	case *uint64:
		return op(p)
	case *atomic.Uint64:
		return opT(p)
	}
	panic("sequence: the counter has a type the verification accessors do not know")
}

// VerifReset makes the process-global counter look like that of a fresh process (optionally
// already advanced to base): the simulator starts every world with it.
func VerifReset(base uint64) {
	verifCounter(func(p *uint64) uint64 { atomic.StoreUint64(p, base); return 0 },
		func(p *atomic.Uint64) uint64 { p.Store(base); return 0 })
}

// VerifAdvance draws n numbers at once: what a burst of other traffic in the process (another
// database of the same process, say) does to the shared counter.
func VerifAdvance(n uint64) {
	verifCounter(func(p *uint64) uint64 { return atomic.AddUint64(p, n) },
		func(p *atomic.Uint64) uint64 { return p.Add(n) })
}

// VerifPeek returns the current counter value.
func VerifPeek() uint64 {
	return verifCounter(func(p *uint64) uint64 { return atomic.LoadUint64(p) },
		func(p *atomic.Uint64) uint64 { return p.Load() })
}
