// Package simbadger replaces the badger import inside fs_db's Badger seam
// (internal/db/badger). The database is the real Badger; Update and View become decision
// points, Update is a persistent-mutation point (crash point) and can be made to fail before
// it applies anything or at its commit step, after its function has run.
package simbadger

import (
	"errors"
	"os"

	"github.com/dgraph-io/badger/v3"

	"github.com/glebziz/fs_db/internal/verif/simrt"
)

type (
	Txn             = badger.Txn
	Item            = badger.Item
	Iterator        = badger.Iterator
	IteratorOptions = badger.IteratorOptions
	Options         = badger.Options
	Entry           = badger.Entry
	Logger          = badger.Logger
)

var (
	DefaultIteratorOptions = badger.DefaultIteratorOptions
	ErrKeyNotFound         = badger.ErrKeyNotFound
	ErrConflict            = badger.ErrConflict
	ErrNoRewrite           = badger.ErrNoRewrite
	ErrTxnTooBig           = badger.ErrTxnTooBig
)

// ErrInjected is returned by an Update that the fault plan made fail before applying.
var ErrInjected = errors.New("simbadger: injected update failure")

// Faults of the current world.
type Faults struct {
	FailUpdateAt map[uint64]bool // fail the n-th Update (1-based, counted per world) before it applies anything
	FailCommitAt map[uint64]bool // let the function of the n-th Update run, then fail its commit step (Badger discards the transaction)
	Updates      uint64
	Views        uint64
	Injected     uint64
}

var faults *Faults

//go:norace
func Install(f *Faults) { faults = f }

//go:norace
func Current() *Faults { return faults }

// UseDefaults: the next databases are opened with Badger's own defaults (cases whose subject is
// how much one Badger transaction takes: that limit is derived from the memtable size).
var UseDefaults bool

// DefaultOptions: Badger's defaults, except that (unless VERIF_BADGER_DEFAULT=1) the memtable,
// value-log file and block cache are sized for a database of a few hundred small records. This
// only changes how much memory and tmpfs Badger maps at Open (30 ms -> 9 ms per world); the one
// thing of fs_db's that depends on it is the size of the largest commit (a Badger transaction takes
// about 15% of a memtable): cases about large commits set UseDefaults.
//
//go:norace
func DefaultOptions(path string) Options {
	o := badger.DefaultOptions(path)
	if os.Getenv("VERIF_BADGER_DEFAULT") == "1" || UseDefaults {
		return o
	}
	return o.WithMemTableSize(8 << 20).WithValueLogFileSize(4 << 20).WithBlockCacheSize(1 << 20).WithNumMemtables(2).WithNumCompactors(2)
}

//go:norace
func NewEntry(k, v []byte) *Entry { return badger.NewEntry(k, v) }

type DB struct {
	*badger.DB
}

//go:norace
func Open(opt Options) (*DB, error) {
	simrt.Mutation("badger.open", opt.Dir)
	db, err := badger.Open(opt)
	if err != nil {
		return nil, err
	}
	return &DB{db}, nil
}

//go:norace
func (db *DB) Update(fn func(txn *Txn) error) error {
	simrt.Mutation("badger.update", "")
	if f := faults; f != nil {
		f.Updates++
		if f.FailUpdateAt[f.Updates] {
			f.Injected++
			return ErrInjected
		}
		if f.FailCommitAt[f.Updates] {
			// every write inside the function is accepted; the transaction then fails to commit
			// (an I/O error on the value log, say): nothing of it may be visible anywhere
			return db.DB.Update(func(txn *Txn) error {
				if err := fn(txn); err != nil {
					return err
				}
				f.Injected++
				return ErrInjected
			})
		}
	}
	return db.DB.Update(fn)
}

//go:norace
func (db *DB) View(fn func(txn *Txn) error) error {
	simrt.Yield("badger.view")
	if f := faults; f != nil {
		f.Views++
	}
	return db.DB.View(fn)
}

//go:norace
func (db *DB) Close() error {
	simrt.Mutation("badger.close", "")
	return db.DB.Close()
}

//go:norace
func (db *DB) RunValueLogGC(r float64) error {
	simrt.Yield("badger.vlog-gc")
	return db.DB.RunValueLogGC(r)
}
