// Package sctx replaces package context in the rewritten wpool sources. Contexts stay real
// context.Context values (Done/Err/Value semantics are those of package context); what changes
// is that cancel functions are decision points, that the simulator learns which Done channels
// are closed, and that AfterFunc callbacks run as managed goroutines instead of goroutines
// started inside package context.
package sctx

import (
	"context"
	"sync"
	"time"

	"github.com/glebziz/fs_db/internal/verif/simrt"
)

type (
	Context         = context.Context
	CancelFunc      = context.CancelFunc
	CancelCauseFunc = context.CancelCauseFunc
)

var (
	Canceled         = context.Canceled
	DeadlineExceeded = context.DeadlineExceeded
)

func Background() Context { return context.Background() }
func TODO() Context       { return context.TODO() }

func WithValue(parent Context, key, val any) Context { return context.WithValue(parent, key, val) }
func Cause(c Context) error                           { return context.Cause(c) }
func WithoutCancel(parent Context) Context            { return context.WithoutCancel(parent) }

type simKey struct{}

// simCtx is a cancellable context the simulator knows about.
type simCtx struct {
	context.Context
	// mu is a REAL mutex (never a decision point, never held across one): package context
	// orders AfterFunc registration, child registration and cancellation through the parent's
	// mutex, and the race detector must see the same happens-before edges here.
	mu     sync.Mutex
	afters []*afterReg
	done   bool
	kids   []*simCtx
}

type afterReg struct {
	f       func()
	stopped bool
	fired   bool
}

func (c *simCtx) Value(key any) any {
	if _, ok := key.(simKey); ok {
		return c
	}
	return c.Context.Value(key)
}

func nearest(c Context) *simCtx {
	sc, _ := c.Value(simKey{}).(*simCtx)
	return sc
}

func (c *simCtx) fire() {
	c.mu.Lock()
	if c.done {
		c.mu.Unlock()
		return
	}
	c.done = true
	var run []func()
	for _, a := range c.afters {
		if !a.stopped && !a.fired {
			a.fired = true
			run = append(run, a.f)
		}
	}
	c.afters = nil
	kids := c.kids
	c.kids = nil
	c.mu.Unlock()
	simrt.MarkClosed(c.Context.Done())
	for _, f := range run {
		simrt.Go(f)
	}
	for _, k := range kids {
		k.fire()
	}
}

// adopt registers child with parent (or fires it at once if the parent is already done).
func (c *simCtx) adopt(child *simCtx) {
	c.mu.Lock()
	if c.done {
		c.mu.Unlock()
		child.fire()
		return
	}
	c.kids = append(c.kids, child)
	c.mu.Unlock()
}

func WithCancel(parent Context) (Context, CancelFunc) {
	ctx, cancel := context.WithCancel(parent)
	if !simrt.Active() {
		return ctx, cancel
	}
	sc := &simCtx{Context: ctx}
	if p := nearest(parent); p != nil && p.Context.Done() != nil {
		p.adopt(sc)
	}
	return sc, func() {
		simrt.Yield("ctx.cancel")
		cancel()
		sc.fire()
	}
}

func WithCancelCause(parent Context) (Context, CancelCauseFunc) {
	ctx, cancel := context.WithCancelCause(parent)
	if !simrt.Active() {
		return ctx, cancel
	}
	sc := &simCtx{Context: ctx}
	if p := nearest(parent); p != nil {
		p.adopt(sc)
	}
	return sc, func(cause error) {
		simrt.Yield("ctx.cancel")
		cancel(cause)
		sc.fire()
	}
}

// WithTimeout / WithDeadline: the deadline is measured on the simulated clock.
func WithTimeout(parent Context, d time.Duration) (Context, CancelFunc) {
	if !simrt.Active() {
		return context.WithTimeout(parent, d)
	}
	ctx, cancel := WithCancel(parent)
	sc := ctx.(*simCtx)
	t := simrt.TimeAfterFunc(d, func() {
		cancel()
	})
	_ = sc
	return ctx, func() { t.Stop(); cancel() }
}

func WithDeadline(parent Context, at time.Time) (Context, CancelFunc) {
	if !simrt.Active() {
		return context.WithDeadline(parent, at)
	}
	return WithTimeout(parent, at.Sub(simrt.TimeNow()))
}

func AfterFunc(ctx Context, f func()) (stop func() bool) {
	if !simrt.Active() {
		return context.AfterFunc(ctx, f)
	}
	sc := nearest(ctx)
	if sc == nil {
		// a context the simulator does not own (Background: never cancelled)
		if ctx.Done() == nil {
			return func() bool { return true }
		}
		return context.AfterFunc(ctx, func() { simrt.Probe("sctx.foreign-afterfunc"); f() })
	}
	a := &afterReg{f: f}
	sc.mu.Lock()
	if sc.done {
		a.fired = true
		sc.mu.Unlock()
		simrt.Go(f)
		return func() bool { return false }
	}
	sc.afters = append(sc.afters, a)
	sc.mu.Unlock()
	return func() bool {
		sc.mu.Lock()
		defer sc.mu.Unlock()
		if a.fired || a.stopped {
			return false
		}
		a.stopped = true
		return true
	}
}
