// Package satomic replaces package sync/atomic in the rewritten fs_db sources.
package satomic

import (
	"unsafe"

	"github.com/glebziz/fs_db/internal/verif/simrt"
)

type (
	Bool    = simrt.Bool
	Int32   = simrt.Int32
	Int64   = simrt.Int64
	Uint32  = simrt.Uint32
	Uint64  = simrt.Uint64
	Uintptr = simrt.Uintptr
	Value   = simrt.Value
)

// Pointer mirrors atomic.Pointer (generic aliases are not available in go1.23).
type Pointer[T any] struct{ simrt.Pointer[T] }

func AddInt32(a *int32, d int32) int32                 { return simrt.AddInt32(a, d) }
func AddInt64(a *int64, d int64) int64                 { return simrt.AddInt64(a, d) }
func AddUint32(a *uint32, d uint32) uint32             { return simrt.AddUint32(a, d) }
func AddUint64(a *uint64, d uint64) uint64             { return simrt.AddUint64(a, d) }
func AddUintptr(a *uintptr, d uintptr) uintptr         { return simrt.AddUintptr(a, d) }
func LoadInt32(a *int32) int32                         { return simrt.LoadInt32(a) }
func LoadInt64(a *int64) int64                         { return simrt.LoadInt64(a) }
func LoadUint32(a *uint32) uint32                      { return simrt.LoadUint32(a) }
func LoadUint64(a *uint64) uint64                      { return simrt.LoadUint64(a) }
func LoadUintptr(a *uintptr) uintptr                   { return simrt.LoadUintptr(a) }
func LoadPointer(a *unsafe.Pointer) unsafe.Pointer     { return simrt.LoadPointer(a) }
func StoreInt32(a *int32, v int32)                     { simrt.StoreInt32(a, v) }
func StoreInt64(a *int64, v int64)                     { simrt.StoreInt64(a, v) }
func StoreUint32(a *uint32, v uint32)                  { simrt.StoreUint32(a, v) }
func StoreUint64(a *uint64, v uint64)                  { simrt.StoreUint64(a, v) }
func StoreUintptr(a *uintptr, v uintptr)               { simrt.StoreUintptr(a, v) }
func StorePointer(a *unsafe.Pointer, v unsafe.Pointer) { simrt.StorePointer(a, v) }
func SwapInt32(a *int32, v int32) int32                { return simrt.SwapInt32(a, v) }
func SwapInt64(a *int64, v int64) int64                { return simrt.SwapInt64(a, v) }
func SwapUint32(a *uint32, v uint32) uint32            { return simrt.SwapUint32(a, v) }
func SwapUint64(a *uint64, v uint64) uint64            { return simrt.SwapUint64(a, v) }
func CompareAndSwapInt32(a *int32, o, n int32) bool    { return simrt.CompareAndSwapInt32(a, o, n) }
func CompareAndSwapInt64(a *int64, o, n int64) bool    { return simrt.CompareAndSwapInt64(a, o, n) }
func CompareAndSwapUint32(a *uint32, o, n uint32) bool { return simrt.CompareAndSwapUint32(a, o, n) }
func CompareAndSwapUint64(a *uint64, o, n uint64) bool { return simrt.CompareAndSwapUint64(a, o, n) }
func CompareAndSwapUintptr(a *uintptr, o, n uintptr) bool {
	return simrt.CompareAndSwapUintptr(a, o, n)
}
func CompareAndSwapPointer(a *unsafe.Pointer, o, n unsafe.Pointer) bool {
	return simrt.CompareAndSwapPointer(a, o, n)
}
