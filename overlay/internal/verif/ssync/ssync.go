// Package ssync replaces package sync in the rewritten fs_db sources.
package ssync

import "github.com/glebziz/fs_db/internal/verif/simrt"

type (
	Mutex     = simrt.Mutex
	RWMutex   = simrt.RWMutex
	Cond      = simrt.Cond
	WaitGroup = simrt.WaitGroup
	Once      = simrt.Once
	Locker    = simrt.Locker
	Map       = simrt.Map
	Pool      = simrt.Pool
)

func NewCond(l Locker) *Cond { return simrt.NewCond(l) }

func OnceFunc(f func()) func()                            { return simrt.OnceFunc(f) }
func OnceValue[T any](f func() T) func() T                { return simrt.OnceValue(f) }
func OnceValues[A, B any](f func() (A, B)) func() (A, B) { return simrt.OnceValues(f) }
