package simrt

import (
	"syscall"
)

// Persistent-mutation points (file create/write/close/remove, mkdir, Badger update): each is
// a decision point, is counted, and is where crashsim kills the process.

var (
	mutations   uint64
	killAt      uint64 // die just before the killAt-th mutation (0 = never)
	killTorn    bool   // if that mutation is a file write: write a prefix of it first
	mutationLog func(n uint64, kind, path string)
	idRand      = NewRand(1)
)

// SetKill arms the crash point for this process.
//
//go:norace
func SetKill(at uint64, torn bool) { killAt, killTorn = at, torn }

//go:norace
func SetMutationLog(f func(n uint64, kind, path string)) { mutationLog = f }

//go:norace
func Mutations() uint64 { return mutations }

//go:norace
func ResetMutations() { mutations = 0 }

// Mutation marks the point just before a persistent mutation. It returns true if the caller
// is a write that must be torn (write a prefix, then call KillNow).
//
//go:norace
func Mutation(kind, path string) (torn bool) {
	mutations++
	if mutationLog != nil {
		mutationLog(mutations, kind, path)
	}
	if killAt != 0 && mutations == killAt {
		if killTorn && kind == "write" {
			return true
		}
		KillNow()
	}
	if s := world; s != nil {
		s.yield(nil, "io."+kind, 2)
	}
	return false
}

// KillNow is process death: no deferred function, no flush, no close.
//
//go:norace
func KillNow() {
	_ = syscall.Kill(syscall.Getpid(), syscall.SIGKILL)
	select {}
}

// IDRand is the stream that feeds random identifiers (uuid) and the DI random source.
//
//go:norace
func IDRand() *Rand { return idRand }

//go:norace
func SeedIDs(seed uint64) { idRand = NewRand(seed).Derive("ids") }
