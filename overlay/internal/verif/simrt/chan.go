package simrt

import (
	"fmt"
	"reflect"
)

// Channel operations of the rewritten sources. Real channels are kept; a blocking operation
// becomes "try without blocking, otherwise park until the operation can succeed". Readiness
// is computed from len/cap and from the registry of channels closed through Close/MarkClosed;
// as a safety net, when nothing at all can run, goroutines parked in a select are made to
// re-poll once before a deadlock is declared (a channel closed by foreign code).

type SelCase struct {
	send bool
	ch   reflect.Value
	val  reflect.Value
}

// Sel is the outcome of a rewritten select: I is the index of the chosen case (-1 = default).
type Sel struct {
	I    int
	recv reflect.Value
	ok   bool
}

//go:norace
func CaseRecv[T any](c <-chan T) SelCase { return SelCase{ch: reflect.ValueOf(c)} }

//go:norace
func CaseSend[T any](c chan<- T, v T) SelCase {
	return SelCase{send: true, ch: reflect.ValueOf(c), val: reflect.ValueOf(&v).Elem()}
}

//go:norace
func Got[T any](_ <-chan T, r Sel) T {
	if !r.ok {
		var z T
		return z
	}
	// (a nil value of an interface element type - `done <- nil` on a chan error - comes back as
	// an untyped nil interface, which no type assertion accepts)
	v, _ := r.recv.Interface().(T)
	return v
}

//go:norace
func Got2[T any](c <-chan T, r Sel) (T, bool) { return Got(c, r), r.ok }

type selWaiter struct {
	g     *G
	cases []SelCase
	force bool
}

//go:norace
func (w *selWaiter) meta() bool { return false }

//go:norace
func (w *selWaiter) blocked(s *Sched) bool {
	if w.force {
		return false
	}
	for _, c := range w.cases {
		if !c.ch.IsValid() || c.ch.IsNil() {
			continue
		}
		if s.closed[c.ch.Pointer()] != nil {
			return false
		}
		if c.send {
			if c.ch.Len() < c.ch.Cap() {
				return false
			}
		} else if c.ch.Len() > 0 {
			return false
		}
	}
	return true
}

// repoll wakes every goroutine parked in a select for one real re-poll; it reports false if
// that was already done since the last productive step.
//
//go:norace
func (s *Sched) repoll() bool {
	if s.abort {
		return false
	}
	any := false
	for _, g := range s.gs {
		if g.done || !g.selPoll {
			continue
		}
		if w, ok := g.w.(*selWaiter); ok && !w.force && !s.repolledOnce[g.id] {
			w.force = true
			if s.repolledOnce == nil {
				s.repolledOnce = map[int]bool{}
			}
			s.repolledOnce[g.id] = true
			any = true
		}
	}
	return any
}

// Select is the rewritten form of a select statement. It returns the index of the chosen case
// (-1 for default) and, for a receive, the received value.
//
//go:norace
func Select(cases []SelCase, hasDefault bool) Sel {
	s := world
	if s == nil {
		return realSelect(cases, hasDefault, nil)
	}
	s.yield(nil, "select", 2)
	for {
		order := s.orng.Perm(len(cases))
		r := realSelect(cases, true, order)
		if r.I >= 0 {
			s.repolledOnce = nil
			return r
		}
		if hasDefault {
			return Sel{I: -1}
		}
		for _, c := range cases {
			if c.send && c.ch.IsValid() && !c.ch.IsNil() && c.ch.Cap() == 0 {
				Fail(StatusUnsupported, "simrt: blocking send on an unbuffered channel is not modelled")
			}
		}
		g := s.cur
		g.selPoll = true
		s.yield(&selWaiter{g: g, cases: cases}, "select.wait", 2)
	}
}

//go:norace
func realSelect(cases []SelCase, nonblocking bool, order []int) Sel {
	rc := make([]reflect.SelectCase, 0, len(cases)+1)
	idx := make([]int, 0, len(cases)+1)
	for k := range cases {
		i := k
		if order != nil {
			i = order[k]
		}
		c := cases[i]
		if !c.ch.IsValid() {
			continue
		}
		if c.send {
			rc = append(rc, reflect.SelectCase{Dir: reflect.SelectSend, Chan: c.ch, Send: c.val})
		} else {
			rc = append(rc, reflect.SelectCase{Dir: reflect.SelectRecv, Chan: c.ch})
		}
		idx = append(idx, i)
	}
	if nonblocking {
		rc = append(rc, reflect.SelectCase{Dir: reflect.SelectDefault})
		idx = append(idx, -1)
	}
	if order != nil && len(rc) > 1 {
		// reflect.Select picks uniformly among ready cases with the runtime's own randomness;
		// to stay deterministic try the cases one by one in the seeded order.
		for k := 0; k < len(rc)-1; k++ {
			chosen, recv, ok := reflect.Select([]reflect.SelectCase{rc[k], {Dir: reflect.SelectDefault}})
			if chosen == 0 {
				return Sel{I: idx[k], recv: recv, ok: ok}
			}
		}
		return Sel{I: -1}
	}
	chosen, recv, ok := reflect.Select(rc)
	return Sel{I: idx[chosen], recv: recv, ok: ok}
}

//go:norace
func Send[T any](c chan<- T, v T) {
	if world == nil {
		c <- v
		return
	}
	Select([]SelCase{CaseSend(c, v)}, false)
}

//go:norace
func Recv[T any](c <-chan T) T {
	if world == nil {
		return <-c
	}
	r := Select([]SelCase{CaseRecv(c)}, false)
	return Got(c, r)
}

//go:norace
func Recv2[T any](c <-chan T) (T, bool) {
	if world == nil {
		v, ok := <-c
		return v, ok
	}
	r := Select([]SelCase{CaseRecv(c)}, false)
	return Got2(c, r)
}

// Close is the rewritten builtin close.
//
//go:norace
func Close(c any) {
	v := reflect.ValueOf(c)
	s := world
	if s == nil {
		v.Close()
		return
	}
	s.yield(nil, "chan.close", 2)
	if v.IsNil() {
		Fail(StatusMisuse, "close of nil channel")
	}
	if s.closed[v.Pointer()] != nil {
		Fail(StatusMisuse, "close of closed channel")
	}
	s.closed[v.Pointer()] = c
	v.Close()
}

// MarkClosed tells the simulator that c was closed by code it does not rewrite (sctx).
//
//go:norace
func MarkClosed(c any) {
	if s := world; s != nil {
		v := reflect.ValueOf(c)
		if v.IsValid() && !v.IsNil() {
			s.closed[v.Pointer()] = c
		}
	}
}

var _ = fmt.Sprintf
