package simrt

import (
	"sync"
)

// The shims below replace package sync in the rewritten sources. Each operation is a decision
// point *before its effect* (acquires and releases alike); blocking is modelled by a waiter
// predicate, and after the simulated acquire the real primitive is taken too (it can never
// block then), so behaviour is unchanged and, under racesim, the race detector sees exactly
// the program's own happens-before edges.

type Locker = sync.Locker

// ---- Mutex -------------------------------------------------------------------------------

type Mutex struct {
	mu   sync.Mutex
	held bool
}

//go:norace
func (m *Mutex) blocked(*Sched) bool { return m.held }

//go:norace
func (m *Mutex) meta() bool { return false }

//go:norace
func (m *Mutex) Lock() {
	s := world
	if s == nil {
		m.mu.Lock()
		return
	}
	s.yield(m, "Mutex.Lock", 2)
	m.held = true
	m.mu.Lock()
}

//go:norace
func (m *Mutex) TryLock() bool {
	s := world
	if s == nil {
		return m.mu.TryLock()
	}
	s.yield(nil, "Mutex.TryLock", 2)
	if m.held {
		return false
	}
	m.held = true
	m.mu.Lock()
	return true
}

//go:norace
func (m *Mutex) Unlock() {
	s := world
	if s == nil {
		m.mu.Unlock()
		return
	}
	s.yield(nil, "Mutex.Unlock", 2)
	m.unlockNoYield()
}

//go:norace
func (m *Mutex) unlockNoYield() {
	if !m.held {
		Fail(StatusMisuse, "sync: unlock of unlocked mutex")
	}
	m.held = false
	m.mu.Unlock()
}

// ---- RWMutex -----------------------------------------------------------------------------

type RWMutex struct {
	mu      sync.RWMutex
	writer  bool
	readers int
	pending int // writers that called Lock and wait: they block new readers (Go semantics)
}

type rwRead struct{ m *RWMutex }
type rwWrite struct{ m *RWMutex }

//go:norace
func (w rwRead) blocked(*Sched) bool { return w.m.writer || w.m.pending > 0 }

//go:norace
func (w rwRead) meta() bool { return false }

//go:norace
func (w rwWrite) blocked(*Sched) bool { return w.m.writer || w.m.readers > 0 }

//go:norace
func (w rwWrite) meta() bool { return false }

//go:norace
func (m *RWMutex) Lock() {
	s := world
	if s == nil {
		m.mu.Lock()
		return
	}
	s.yield(nil, "RWMutex.Lock", 2)
	if m.writer || m.readers > 0 {
		m.pending++
		s.yield(rwWrite{m}, "RWMutex.Lock.wait", 2)
		m.pending--
	}
	m.writer = true
	m.mu.Lock()
}

//go:norace
func (m *RWMutex) TryLock() bool {
	s := world
	if s == nil {
		return m.mu.TryLock()
	}
	s.yield(nil, "RWMutex.TryLock", 2)
	if m.writer || m.readers > 0 {
		return false
	}
	m.writer = true
	m.mu.Lock()
	return true
}

//go:norace
func (m *RWMutex) Unlock() {
	s := world
	if s == nil {
		m.mu.Unlock()
		return
	}
	s.yield(nil, "RWMutex.Unlock", 2)
	if !m.writer {
		Fail(StatusMisuse, "sync: Unlock of unlocked RWMutex")
	}
	m.writer = false
	m.mu.Unlock()
}

//go:norace
func (m *RWMutex) RLock() {
	s := world
	if s == nil {
		m.mu.RLock()
		return
	}
	s.yield(rwRead{m}, "RWMutex.RLock", 2)
	m.readers++
	m.mu.RLock()
}

//go:norace
func (m *RWMutex) TryRLock() bool {
	s := world
	if s == nil {
		return m.mu.TryRLock()
	}
	s.yield(nil, "RWMutex.TryRLock", 2)
	if m.writer || m.pending > 0 {
		return false
	}
	m.readers++
	m.mu.RLock()
	return true
}

//go:norace
func (m *RWMutex) RUnlock() {
	s := world
	if s == nil {
		m.mu.RUnlock()
		return
	}
	s.yield(nil, "RWMutex.RUnlock", 2)
	if m.readers <= 0 {
		Fail(StatusMisuse, "sync: RUnlock of unlocked RWMutex")
	}
	m.readers--
	m.mu.RUnlock()
}

type rlocker RWMutex

//go:norace
func (r *rlocker) Lock() { (*RWMutex)(r).RLock() }

//go:norace
func (r *rlocker) Unlock() { (*RWMutex)(r).RUnlock() }

//go:norace
func (m *RWMutex) RLocker() Locker { return (*rlocker)(m) }

// ---- Cond --------------------------------------------------------------------------------

type Cond struct {
	L       Locker
	rc      sync.Cond
	waiters []*condTicket
}

type condTicket struct{ notified bool }

//go:norace
func (t *condTicket) blocked(*Sched) bool { return !t.notified }

//go:norace
func (t *condTicket) meta() bool { return false }

//go:norace
func NewCond(l Locker) *Cond { return &Cond{L: l} }

//go:norace
func (c *Cond) Wait() {
	s := world
	if s == nil {
		c.rc.L = c.L
		c.rc.Wait()
		return
	}
	s.yield(nil, "Cond.Wait", 2) // entry is a decision point of its own: the caller has not yet joined the wait list
	t := &condTicket{}
	c.waiters = append(c.waiters, t)
	if m, ok := c.L.(*Mutex); ok {
		m.unlockNoYield()
	} else {
		c.L.Unlock()
	}
	s.yield(t, "Cond.Wait.sleep", 2)
	c.L.Lock()
}

//go:norace
func (c *Cond) Signal() {
	s := world
	if s == nil {
		c.rc.L = c.L
		c.rc.Signal()
		return
	}
	s.yield(nil, "Cond.Signal", 2)
	if len(c.waiters) > 0 {
		c.waiters[0].notified = true
		c.waiters = c.waiters[1:]
	}
}

//go:norace
func (c *Cond) Broadcast() {
	s := world
	if s == nil {
		c.rc.L = c.L
		c.rc.Broadcast()
		return
	}
	s.yield(nil, "Cond.Broadcast", 2)
	for _, t := range c.waiters {
		t.notified = true
	}
	c.waiters = nil
}

// ---- WaitGroup ----------------------------------------------------------------------------

type WaitGroup struct {
	wg      sync.WaitGroup
	n       int
	waiting int    // goroutines parked in Wait
	gen     uint64 // incremented when the counter reaches zero with waiters: they are released
}

// wgTicket: a waiter is released when the counter reaches zero (generation change), as in the
// real implementation, where the wake-up is committed at that moment: an Add that follows before
// the waiter has returned from Wait makes the real WaitGroup panic ("WaitGroup is reused before
// previous Wait has returned"). The shim reports that misuse instead of blocking the waiter again.
type wgTicket struct {
	w   *WaitGroup
	gen uint64
}

//go:norace
func (t *wgTicket) blocked(*Sched) bool { return t.w.gen == t.gen }

//go:norace
func (t *wgTicket) meta() bool { return false }

//go:norace
func (w *WaitGroup) Add(delta int) {
	s := world
	if s == nil {
		w.wg.Add(delta)
		return
	}
	s.yield(nil, "WaitGroup.Add", 2)
	w.add(delta)
}

//go:norace
func (w *WaitGroup) add(delta int) {
	w.n += delta
	if w.n < 0 {
		Fail(StatusMisuse, "sync: negative WaitGroup counter")
	}
	if w.n == 0 && w.waiting > 0 {
		w.gen++
		w.waiting = 0
	}
	w.wg.Add(delta)
}

//go:norace
func (w *WaitGroup) Done() {
	s := world
	if s == nil {
		w.wg.Done()
		return
	}
	s.yield(nil, "WaitGroup.Done", 2)
	w.add(-1)
}

//go:norace
func (w *WaitGroup) Wait() {
	s := world
	if s == nil {
		w.wg.Wait()
		return
	}
	s.yield(nil, "WaitGroup.Wait", 2)
	if w.n == 0 {
		w.wg.Wait() // returns at once; keeps the happens-before edge from the Done calls
		return
	}
	w.waiting++
	s.yield(&wgTicket{w: w, gen: w.gen}, "WaitGroup.Wait", 2)
	if w.n != 0 {
		Fail(StatusMisuse, "sync: WaitGroup is reused before previous Wait has returned")
	}
	w.wg.Wait()
}

// ---- Once --------------------------------------------------------------------------------

type Once struct {
	o       sync.Once
	running bool
	done    bool
}

//go:norace
func (o *Once) blocked(*Sched) bool { return o.running }

//go:norace
func (o *Once) meta() bool { return false }

//go:norace
func (o *Once) Do(f func()) {
	s := world
	if s == nil {
		o.o.Do(f)
		return
	}
	s.yield(o, "Once.Do", 2)
	if o.done {
		o.o.Do(f) // returns at once; keeps the happens-before edge
		return
	}
	o.running = true
	defer func() {
		o.running = false
		o.done = true
	}()
	o.o.Do(f)
}

//go:norace
func OnceFunc(f func()) func() {
	var o Once
	return func() { o.Do(f) }
}

//go:norace
func OnceValue[T any](f func() T) func() T {
	var (
		o Once
		v T
	)
	return func() T {
		o.Do(func() { v = f() })
		return v
	}
}

//go:norace
func OnceValues[T1, T2 any](f func() (T1, T2)) func() (T1, T2) {
	var (
		o  Once
		v1 T1
		v2 T2
	)
	return func() (T1, T2) {
		o.Do(func() { v1, v2 = f() })
		return v1, v2
	}
}

// Map and Pool are not scheduling-relevant in fs_db; they pass through.
type Map = sync.Map
type Pool = sync.Pool
