package simrt

import (
	"fmt"
	"iter"
	"sort"
)

// MapIter replaces `range m` over a map in the rewritten sources: keys are snapshotted,
// sorted, then permuted by the run's order stream, so iteration order is a seeded choice
// instead of the Go runtime's hidden randomness. Entries deleted before they are reached are
// skipped (Go semantics); entries added during iteration are not visited (allowed by the spec).
func MapIter[M ~map[K]V, K comparable, V any](m M) iter.Seq2[K, V] {
	return func(yield func(K, V) bool) {
		if len(m) == 0 {
			return
		}
		keys := make([]K, 0, len(m))
		for k := range m {
			keys = append(keys, k)
		}
		sortKeys(keys)
		if s := world; s != nil && len(keys) > 1 {
			p := s.orng.Perm(len(keys))
			nk := make([]K, len(keys))
			for i, j := range p {
				nk[i] = keys[j]
			}
			keys = nk
		}
		for _, k := range keys {
			v, ok := m[k]
			if !ok {
				continue
			}
			if !yield(k, v) {
				return
			}
		}
	}
}

func sortKeys[K comparable](keys []K) {
	switch ks := any(keys).(type) {
	case []string:
		sort.Strings(ks)
	case []int:
		sort.Ints(ks)
	default:
		sort.Slice(keys, func(i, j int) bool { return fmt.Sprint(keys[i]) < fmt.Sprint(keys[j]) })
	}
}
