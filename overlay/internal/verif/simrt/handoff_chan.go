//go:build !simpipe

package simrt

// handoff parks and resumes a managed goroutine. Channel flavour: fast, but every resume is a
// happens-before edge, so the race detector can never fire (see handoff_pipe.go).
type handoff struct{ ch chan struct{} }

//go:norace
func (h *handoff) init() { h.ch = make(chan struct{}, 1) }

//go:norace
func (h *handoff) park() { <-h.ch }

//go:norace
func (h *handoff) unpark() { h.ch <- struct{}{} }

//go:norace
func (h *handoff) close() {}

const PipeHandoff = false
