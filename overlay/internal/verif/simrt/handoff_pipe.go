//go:build simpipe

package simrt

import (
	"syscall"
	"unsafe"
)

// handoff, pipe flavour (racesim): goroutines park in a raw read(2) on a private pipe. The
// race detector instruments neither the raw system call nor these norace functions, so the
// hand-off adds no happens-before edge: what the detector sees is the program's own
// synchronisation only, while the execution is still serialised and seeded.
type handoff struct{ r, w int }

//go:norace
func (h *handoff) init() {
	var fds [2]int
	if err := syscall.Pipe2(fds[:], syscall.O_CLOEXEC); err != nil {
		panic("simrt: pipe: " + err.Error())
	}
	h.r, h.w = fds[0], fds[1]
}

//go:norace
func (h *handoff) park() {
	var b [1]byte
	for {
		n, _, e := syscall.Syscall(syscall.SYS_READ, uintptr(h.r), uintptr(unsafe.Pointer(&b[0])), 1)
		if e == syscall.EINTR {
			continue
		}
		if n == 1 {
			return
		}
		if e != 0 {
			panic("simrt: pipe read: " + e.Error())
		}
	}
}

//go:norace
func (h *handoff) unpark() {
	b := [1]byte{1}
	for {
		n, _, e := syscall.Syscall(syscall.SYS_WRITE, uintptr(h.w), uintptr(unsafe.Pointer(&b[0])), 1)
		if e == syscall.EINTR {
			continue
		}
		if n == 1 {
			return
		}
		if e != 0 {
			panic("simrt: pipe write: " + e.Error())
		}
	}
}

//go:norace
func (h *handoff) close() {
	syscall.Syscall(syscall.SYS_CLOSE, uintptr(h.r), 0, 0)
	syscall.Syscall(syscall.SYS_CLOSE, uintptr(h.w), 0, 0)
}

const PipeHandoff = true
