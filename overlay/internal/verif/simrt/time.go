package simrt

import (
	"time"
)

// simulated clock: base + now. Timers are scheduler choices (see sched.go).
var timeBase = time.Date(2030, 1, 1, 0, 0, 0, 0, time.UTC)

//go:norace
func TimeNow() time.Time {
	if s := world; s != nil {
		return timeBase.Add(time.Duration(s.now))
	}
	return time.Now()
}

//go:norace
func TimeAfter(d time.Duration) <-chan time.Time {
	s := world
	if s == nil {
		return time.After(d)
	}
	ch := make(chan time.Time, 1)
	s.addTimer(int64(d), func(now int64) {
		select {
		case ch <- timeBase.Add(time.Duration(now)):
		default:
		}
	})
	return ch
}

type sleepWaiter struct{ fired bool }

//go:norace
func (w *sleepWaiter) blocked(*Sched) bool { return !w.fired }

//go:norace
func (w *sleepWaiter) meta() bool { return false }

//go:norace
func TimeSleep(d time.Duration) {
	s := world
	if s == nil {
		time.Sleep(d)
		return
	}
	w := &sleepWaiter{}
	s.addTimer(int64(d), func(int64) { w.fired = true })
	s.yield(w, "time.Sleep", 2)
}

// Timer mirrors time.Timer for simulated time.
type Timer struct {
	C  <-chan time.Time
	c  chan time.Time
	t  *timer
	f  func()
	rt *time.Timer
}

//go:norace
func NewTimer(d time.Duration) *Timer {
	s := world
	if s == nil {
		rt := time.NewTimer(d)
		return &Timer{C: rt.C, rt: rt}
	}
	c := make(chan time.Time, 1)
	t := &Timer{C: c, c: c}
	t.arm(s, d)
	return t
}

//go:norace
func (t *Timer) arm(s *Sched, d time.Duration) {
	t.t = s.addTimer(int64(d), func(now int64) {
		t.t = nil
		if t.f != nil {
			Go(t.f)
			return
		}
		select {
		case t.c <- timeBase.Add(time.Duration(now)):
		default:
		}
	})
}

//go:norace
func TimeAfterFunc(d time.Duration, f func()) *Timer {
	s := world
	if s == nil {
		return &Timer{rt: time.AfterFunc(d, f)}
	}
	t := &Timer{f: f}
	t.arm(s, d)
	return t
}

//go:norace
func (t *Timer) Stop() bool {
	if t.rt != nil {
		return t.rt.Stop()
	}
	s := world
	if s == nil || t.t == nil {
		return false
	}
	ok := s.stopTimer(t.t)
	t.t = nil
	return ok
}

//go:norace
func (t *Timer) Reset(d time.Duration) bool {
	if t.rt != nil {
		return t.rt.Reset(d)
	}
	s := world
	if s == nil {
		return false
	}
	active := false
	if t.t != nil {
		active = s.stopTimer(t.t)
	}
	t.arm(s, d)
	return active
}
