// Package simrt is the deterministic simulation runtime: one managed goroutine runs at a
// time, every synchronisation / atomic / channel / timer / IO operation of the system under
// test is a decision point at which a seeded scheduler chooses who continues.
package simrt

// Rand is a small, allocation-free, splittable PRNG (splitmix64). One VERIF_SEED value
// determines every stream used by a run.
type Rand struct{ s uint64 }

//go:norace
func NewRand(seed uint64) *Rand { return &Rand{s: seed ^ 0x9E3779B97F4A7C15} }

//go:norace
func (r *Rand) Uint64() uint64 {
	r.s += 0x9E3779B97F4A7C15
	z := r.s
	z = (z ^ (z >> 30)) * 0xBF58476D1CE4E5B9
	z = (z ^ (z >> 27)) * 0x94D049BB133111EB
	return z ^ (z >> 31)
}

// Derive returns an independent stream named by label.
//
//go:norace
func (r *Rand) Derive(label string) *Rand {
	h := uint64(1469598103934665603)
	for i := 0; i < len(label); i++ {
		h ^= uint64(label[i])
		h *= 1099511628211
	}
	return NewRand(r.s*0xD1342543DE82EF95 + h)
}

//go:norace
func (r *Rand) Intn(n int) int {
	if n <= 1 {
		return 0
	}
	return int(r.Uint64() % uint64(n))
}

//go:norace
func (r *Rand) Float64() float64 { return float64(r.Uint64()>>11) / (1 << 53) }

//go:norace
func (r *Rand) Bool(p float64) bool { return r.Float64() < p }

//go:norace
func (r *Rand) Perm(n int) []int {
	p := make([]int, n)
	for i := range p {
		p[i] = i
	}
	for i := n - 1; i > 0; i-- {
		j := r.Intn(i + 1)
		p[i], p[j] = p[j], p[i]
	}
	return p
}

// Read fills p (io.Reader), used to feed uuid.SetRand.
//
//go:norace
func (r *Rand) Read(p []byte) (int, error) {
	for i := 0; i < len(p); {
		v := r.Uint64()
		for k := 0; k < 8 && i < len(p); k++ {
			p[i] = byte(v)
			v >>= 8
			i++
		}
	}
	return len(p), nil
}

// Pick returns one of the weighted alternatives (index).
//
//go:norace
func (r *Rand) Pick(weights ...int) int {
	t := 0
	for _, w := range weights {
		t += w
	}
	if t <= 0 {
		return 0
	}
	x := r.Intn(t)
	for i, w := range weights {
		if x < w {
			return i
		}
		x -= w
	}
	return len(weights) - 1
}

// Mix is splitmix finaliser usable as a stateless hash.
//
//go:norace
func Mix(z uint64) uint64 {
	z += 0x9E3779B97F4A7C15
	z = (z ^ (z >> 30)) * 0xBF58476D1CE4E5B9
	z = (z ^ (z >> 27)) * 0x94D049BB133111EB
	return z ^ (z >> 31)
}
