package simrt

import (
	"sync/atomic"
	"unsafe"
)

// Atomic shims: a decision point, then the real atomic operation.

//go:norace
func ay(tag string) {
	if s := world; s != nil {
		s.yield(nil, tag, 3)
	}
}

type Bool struct{ v atomic.Bool }

func (x *Bool) Load() bool                        { ay("atomic.Load"); return x.v.Load() }
func (x *Bool) Store(val bool)                    { ay("atomic.Store"); x.v.Store(val) }
func (x *Bool) Swap(new bool) bool                { ay("atomic.Swap"); return x.v.Swap(new) }
func (x *Bool) CompareAndSwap(old, new bool) bool { ay("atomic.CAS"); return x.v.CompareAndSwap(old, new) }

type Int32 struct{ v atomic.Int32 }

func (x *Int32) Load() int32                        { ay("atomic.Load"); return x.v.Load() }
func (x *Int32) Store(val int32)                    { ay("atomic.Store"); x.v.Store(val) }
func (x *Int32) Swap(new int32) int32               { ay("atomic.Swap"); return x.v.Swap(new) }
func (x *Int32) Add(d int32) int32                  { ay("atomic.Add"); return x.v.Add(d) }
func (x *Int32) CompareAndSwap(old, new int32) bool { ay("atomic.CAS"); return x.v.CompareAndSwap(old, new) }

type Int64 struct{ v atomic.Int64 }

func (x *Int64) Load() int64                        { ay("atomic.Load"); return x.v.Load() }
func (x *Int64) Store(val int64)                    { ay("atomic.Store"); x.v.Store(val) }
func (x *Int64) Swap(new int64) int64               { ay("atomic.Swap"); return x.v.Swap(new) }
func (x *Int64) Add(d int64) int64                  { ay("atomic.Add"); return x.v.Add(d) }
func (x *Int64) CompareAndSwap(old, new int64) bool { ay("atomic.CAS"); return x.v.CompareAndSwap(old, new) }

type Uint32 struct{ v atomic.Uint32 }

func (x *Uint32) Load() uint32                        { ay("atomic.Load"); return x.v.Load() }
func (x *Uint32) Store(val uint32)                    { ay("atomic.Store"); x.v.Store(val) }
func (x *Uint32) Swap(new uint32) uint32              { ay("atomic.Swap"); return x.v.Swap(new) }
func (x *Uint32) Add(d uint32) uint32                 { ay("atomic.Add"); return x.v.Add(d) }
func (x *Uint32) CompareAndSwap(old, new uint32) bool { ay("atomic.CAS"); return x.v.CompareAndSwap(old, new) }

type Uint64 struct{ v atomic.Uint64 }

func (x *Uint64) Load() uint64                        { ay("atomic.Load"); return x.v.Load() }
func (x *Uint64) Store(val uint64)                    { ay("atomic.Store"); x.v.Store(val) }
func (x *Uint64) Swap(new uint64) uint64              { ay("atomic.Swap"); return x.v.Swap(new) }
func (x *Uint64) Add(d uint64) uint64                 { ay("atomic.Add"); return x.v.Add(d) }
func (x *Uint64) CompareAndSwap(old, new uint64) bool { ay("atomic.CAS"); return x.v.CompareAndSwap(old, new) }

type Uintptr struct{ v atomic.Uintptr }

func (x *Uintptr) Load() uintptr                        { ay("atomic.Load"); return x.v.Load() }
func (x *Uintptr) Store(val uintptr)                    { ay("atomic.Store"); x.v.Store(val) }
func (x *Uintptr) Swap(new uintptr) uintptr             { ay("atomic.Swap"); return x.v.Swap(new) }
func (x *Uintptr) Add(d uintptr) uintptr                { ay("atomic.Add"); return x.v.Add(d) }
func (x *Uintptr) CompareAndSwap(old, new uintptr) bool { ay("atomic.CAS"); return x.v.CompareAndSwap(old, new) }

type Pointer[T any] struct{ v atomic.Pointer[T] }

func (x *Pointer[T]) Load() *T                        { ay("atomic.Load"); return x.v.Load() }
func (x *Pointer[T]) Store(val *T)                    { ay("atomic.Store"); x.v.Store(val) }
func (x *Pointer[T]) Swap(new *T) *T                  { ay("atomic.Swap"); return x.v.Swap(new) }
func (x *Pointer[T]) CompareAndSwap(old, new *T) bool { ay("atomic.CAS"); return x.v.CompareAndSwap(old, new) }

type Value struct{ v atomic.Value }

func (x *Value) Load() any                        { ay("atomic.Load"); return x.v.Load() }
func (x *Value) Store(val any)                    { ay("atomic.Store"); x.v.Store(val) }
func (x *Value) Swap(new any) any                 { ay("atomic.Swap"); return x.v.Swap(new) }
func (x *Value) CompareAndSwap(old, new any) bool { ay("atomic.CAS"); return x.v.CompareAndSwap(old, new) }

func AddInt32(addr *int32, delta int32) int32       { ay("atomic.Add"); return atomic.AddInt32(addr, delta) }
func AddInt64(addr *int64, delta int64) int64       { ay("atomic.Add"); return atomic.AddInt64(addr, delta) }
func AddUint32(addr *uint32, delta uint32) uint32   { ay("atomic.Add"); return atomic.AddUint32(addr, delta) }
func AddUint64(addr *uint64, delta uint64) uint64   { ay("atomic.Add"); return atomic.AddUint64(addr, delta) }
func AddUintptr(addr *uintptr, d uintptr) uintptr   { ay("atomic.Add"); return atomic.AddUintptr(addr, d) }
func LoadInt32(addr *int32) int32                   { ay("atomic.Load"); return atomic.LoadInt32(addr) }
func LoadInt64(addr *int64) int64                   { ay("atomic.Load"); return atomic.LoadInt64(addr) }
func LoadUint32(addr *uint32) uint32                { ay("atomic.Load"); return atomic.LoadUint32(addr) }
func LoadUint64(addr *uint64) uint64                { ay("atomic.Load"); return atomic.LoadUint64(addr) }
func LoadUintptr(addr *uintptr) uintptr             { ay("atomic.Load"); return atomic.LoadUintptr(addr) }
func LoadPointer(addr *unsafe.Pointer) unsafe.Pointer { ay("atomic.Load"); return atomic.LoadPointer(addr) }
func StoreInt32(addr *int32, v int32)               { ay("atomic.Store"); atomic.StoreInt32(addr, v) }
func StoreInt64(addr *int64, v int64)               { ay("atomic.Store"); atomic.StoreInt64(addr, v) }
func StoreUint32(addr *uint32, v uint32)            { ay("atomic.Store"); atomic.StoreUint32(addr, v) }
func StoreUint64(addr *uint64, v uint64)            { ay("atomic.Store"); atomic.StoreUint64(addr, v) }
func StoreUintptr(addr *uintptr, v uintptr)         { ay("atomic.Store"); atomic.StoreUintptr(addr, v) }
func StorePointer(addr *unsafe.Pointer, v unsafe.Pointer) { ay("atomic.Store"); atomic.StorePointer(addr, v) }
func SwapInt32(addr *int32, v int32) int32          { ay("atomic.Swap"); return atomic.SwapInt32(addr, v) }
func SwapInt64(addr *int64, v int64) int64          { ay("atomic.Swap"); return atomic.SwapInt64(addr, v) }
func SwapUint32(addr *uint32, v uint32) uint32      { ay("atomic.Swap"); return atomic.SwapUint32(addr, v) }
func SwapUint64(addr *uint64, v uint64) uint64      { ay("atomic.Swap"); return atomic.SwapUint64(addr, v) }
func CompareAndSwapInt32(addr *int32, o, n int32) bool    { ay("atomic.CAS"); return atomic.CompareAndSwapInt32(addr, o, n) }
func CompareAndSwapInt64(addr *int64, o, n int64) bool    { ay("atomic.CAS"); return atomic.CompareAndSwapInt64(addr, o, n) }
func CompareAndSwapUint32(addr *uint32, o, n uint32) bool { ay("atomic.CAS"); return atomic.CompareAndSwapUint32(addr, o, n) }
func CompareAndSwapUint64(addr *uint64, o, n uint64) bool { ay("atomic.CAS"); return atomic.CompareAndSwapUint64(addr, o, n) }
func CompareAndSwapUintptr(addr *uintptr, o, n uintptr) bool { ay("atomic.CAS"); return atomic.CompareAndSwapUintptr(addr, o, n) }
func CompareAndSwapPointer(addr *unsafe.Pointer, o, n unsafe.Pointer) bool {
	ay("atomic.CAS")
	return atomic.CompareAndSwapPointer(addr, o, n)
}
