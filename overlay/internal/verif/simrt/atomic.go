package simrt

import (
	"sync/atomic"
	"unsafe"
)

// Atomic shims: a decision point, then the real atomic operation.

//go:norace
func ay(tag string) {
	if s := world; s != nil {
		s.yield(nil, tag, 3)
	}
}

type Bool struct{ v atomic.Bool }

//go:norace
func (x *Bool) Load() bool { ay("atomic.Load"); return x.v.Load() }

//go:norace
func (x *Bool) Store(val bool) { ay("atomic.Store"); x.v.Store(val) }

//go:norace
func (x *Bool) Swap(new bool) bool { ay("atomic.Swap"); return x.v.Swap(new) }

//go:norace
func (x *Bool) CompareAndSwap(old, new bool) bool {
	ay("atomic.CAS")
	return x.v.CompareAndSwap(old, new)
}

type Int32 struct{ v atomic.Int32 }

//go:norace
func (x *Int32) Load() int32 { ay("atomic.Load"); return x.v.Load() }

//go:norace
func (x *Int32) Store(val int32) { ay("atomic.Store"); x.v.Store(val) }

//go:norace
func (x *Int32) Swap(new int32) int32 { ay("atomic.Swap"); return x.v.Swap(new) }

//go:norace
func (x *Int32) Add(d int32) int32 { ay("atomic.Add"); return x.v.Add(d) }

//go:norace
func (x *Int32) CompareAndSwap(old, new int32) bool {
	ay("atomic.CAS")
	return x.v.CompareAndSwap(old, new)
}

type Int64 struct{ v atomic.Int64 }

//go:norace
func (x *Int64) Load() int64 { ay("atomic.Load"); return x.v.Load() }

//go:norace
func (x *Int64) Store(val int64) { ay("atomic.Store"); x.v.Store(val) }

//go:norace
func (x *Int64) Swap(new int64) int64 { ay("atomic.Swap"); return x.v.Swap(new) }

//go:norace
func (x *Int64) Add(d int64) int64 { ay("atomic.Add"); return x.v.Add(d) }

//go:norace
func (x *Int64) CompareAndSwap(old, new int64) bool {
	ay("atomic.CAS")
	return x.v.CompareAndSwap(old, new)
}

type Uint32 struct{ v atomic.Uint32 }

//go:norace
func (x *Uint32) Load() uint32 { ay("atomic.Load"); return x.v.Load() }

//go:norace
func (x *Uint32) Store(val uint32) { ay("atomic.Store"); x.v.Store(val) }

//go:norace
func (x *Uint32) Swap(new uint32) uint32 { ay("atomic.Swap"); return x.v.Swap(new) }

//go:norace
func (x *Uint32) Add(d uint32) uint32 { ay("atomic.Add"); return x.v.Add(d) }

//go:norace
func (x *Uint32) CompareAndSwap(old, new uint32) bool {
	ay("atomic.CAS")
	return x.v.CompareAndSwap(old, new)
}

type Uint64 struct{ v atomic.Uint64 }

//go:norace
func (x *Uint64) Load() uint64 { ay("atomic.Load"); return x.v.Load() }

//go:norace
func (x *Uint64) Store(val uint64) { ay("atomic.Store"); x.v.Store(val) }

//go:norace
func (x *Uint64) Swap(new uint64) uint64 { ay("atomic.Swap"); return x.v.Swap(new) }

//go:norace
func (x *Uint64) Add(d uint64) uint64 { ay("atomic.Add"); return x.v.Add(d) }

//go:norace
func (x *Uint64) CompareAndSwap(old, new uint64) bool {
	ay("atomic.CAS")
	return x.v.CompareAndSwap(old, new)
}

type Uintptr struct{ v atomic.Uintptr }

//go:norace
func (x *Uintptr) Load() uintptr { ay("atomic.Load"); return x.v.Load() }

//go:norace
func (x *Uintptr) Store(val uintptr) { ay("atomic.Store"); x.v.Store(val) }

//go:norace
func (x *Uintptr) Swap(new uintptr) uintptr { ay("atomic.Swap"); return x.v.Swap(new) }

//go:norace
func (x *Uintptr) Add(d uintptr) uintptr { ay("atomic.Add"); return x.v.Add(d) }

//go:norace
func (x *Uintptr) CompareAndSwap(old, new uintptr) bool {
	ay("atomic.CAS")
	return x.v.CompareAndSwap(old, new)
}

type Pointer[T any] struct{ v atomic.Pointer[T] }

//go:norace
func (x *Pointer[T]) Load() *T { ay("atomic.Load"); return x.v.Load() }

//go:norace
func (x *Pointer[T]) Store(val *T) { ay("atomic.Store"); x.v.Store(val) }

//go:norace
func (x *Pointer[T]) Swap(new *T) *T { ay("atomic.Swap"); return x.v.Swap(new) }

//go:norace
func (x *Pointer[T]) CompareAndSwap(old, new *T) bool {
	ay("atomic.CAS")
	return x.v.CompareAndSwap(old, new)
}

type Value struct{ v atomic.Value }

//go:norace
func (x *Value) Load() any { ay("atomic.Load"); return x.v.Load() }

//go:norace
func (x *Value) Store(val any) { ay("atomic.Store"); x.v.Store(val) }

//go:norace
func (x *Value) Swap(new any) any { ay("atomic.Swap"); return x.v.Swap(new) }

//go:norace
func (x *Value) CompareAndSwap(old, new any) bool {
	ay("atomic.CAS")
	return x.v.CompareAndSwap(old, new)
}

//go:norace
func AddInt32(addr *int32, delta int32) int32 { ay("atomic.Add"); return atomic.AddInt32(addr, delta) }

//go:norace
func AddInt64(addr *int64, delta int64) int64 { ay("atomic.Add"); return atomic.AddInt64(addr, delta) }

//go:norace
func AddUint32(addr *uint32, delta uint32) uint32 {
	ay("atomic.Add")
	return atomic.AddUint32(addr, delta)
}

//go:norace
func AddUint64(addr *uint64, delta uint64) uint64 {
	ay("atomic.Add")
	return atomic.AddUint64(addr, delta)
}

//go:norace
func AddUintptr(addr *uintptr, d uintptr) uintptr {
	ay("atomic.Add")
	return atomic.AddUintptr(addr, d)
}

//go:norace
func LoadInt32(addr *int32) int32 { ay("atomic.Load"); return atomic.LoadInt32(addr) }

//go:norace
func LoadInt64(addr *int64) int64 { ay("atomic.Load"); return atomic.LoadInt64(addr) }

//go:norace
func LoadUint32(addr *uint32) uint32 { ay("atomic.Load"); return atomic.LoadUint32(addr) }

//go:norace
func LoadUint64(addr *uint64) uint64 { ay("atomic.Load"); return atomic.LoadUint64(addr) }

//go:norace
func LoadUintptr(addr *uintptr) uintptr { ay("atomic.Load"); return atomic.LoadUintptr(addr) }

//go:norace
func LoadPointer(addr *unsafe.Pointer) unsafe.Pointer {
	ay("atomic.Load")
	return atomic.LoadPointer(addr)
}

//go:norace
func StoreInt32(addr *int32, v int32) { ay("atomic.Store"); atomic.StoreInt32(addr, v) }

//go:norace
func StoreInt64(addr *int64, v int64) { ay("atomic.Store"); atomic.StoreInt64(addr, v) }

//go:norace
func StoreUint32(addr *uint32, v uint32) { ay("atomic.Store"); atomic.StoreUint32(addr, v) }

//go:norace
func StoreUint64(addr *uint64, v uint64) { ay("atomic.Store"); atomic.StoreUint64(addr, v) }

//go:norace
func StoreUintptr(addr *uintptr, v uintptr) { ay("atomic.Store"); atomic.StoreUintptr(addr, v) }

//go:norace
func StorePointer(addr *unsafe.Pointer, v unsafe.Pointer) {
	ay("atomic.Store")
	atomic.StorePointer(addr, v)
}

//go:norace
func SwapInt32(addr *int32, v int32) int32 { ay("atomic.Swap"); return atomic.SwapInt32(addr, v) }

//go:norace
func SwapInt64(addr *int64, v int64) int64 { ay("atomic.Swap"); return atomic.SwapInt64(addr, v) }

//go:norace
func SwapUint32(addr *uint32, v uint32) uint32 { ay("atomic.Swap"); return atomic.SwapUint32(addr, v) }

//go:norace
func SwapUint64(addr *uint64, v uint64) uint64 { ay("atomic.Swap"); return atomic.SwapUint64(addr, v) }

//go:norace
func CompareAndSwapInt32(addr *int32, o, n int32) bool {
	ay("atomic.CAS")
	return atomic.CompareAndSwapInt32(addr, o, n)
}

//go:norace
func CompareAndSwapInt64(addr *int64, o, n int64) bool {
	ay("atomic.CAS")
	return atomic.CompareAndSwapInt64(addr, o, n)
}

//go:norace
func CompareAndSwapUint32(addr *uint32, o, n uint32) bool {
	ay("atomic.CAS")
	return atomic.CompareAndSwapUint32(addr, o, n)
}

//go:norace
func CompareAndSwapUint64(addr *uint64, o, n uint64) bool {
	ay("atomic.CAS")
	return atomic.CompareAndSwapUint64(addr, o, n)
}

//go:norace
func CompareAndSwapUintptr(addr *uintptr, o, n uintptr) bool {
	ay("atomic.CAS")
	return atomic.CompareAndSwapUintptr(addr, o, n)
}

//go:norace
func CompareAndSwapPointer(addr *unsafe.Pointer, o, n unsafe.Pointer) bool {
	ay("atomic.CAS")
	return atomic.CompareAndSwapPointer(addr, o, n)
}
