package simrt

import (
	"fmt"
	"os"
	"runtime"
	"runtime/debug"
	"sort"
	"strings"
)

// Status is how a simulated run ended.
type Status int

const (
	StatusOK          Status = iota
	StatusDeadlock           // some goroutine not finished, nothing runnable, no timer
	StatusPanic              // a managed goroutine panicked
	StatusStepLimit          // step budget exhausted (inconclusive, never a violation by itself)
	StatusMisuse             // runtime-fatal misuse: unlock of unlocked mutex, negative WaitGroup, double close, send on closed channel
	StatusDiverged           // a replayed choice was not available
	StatusUnsupported        // construct the simulator cannot model (infrastructure, exit 2)
)

//go:norace
func (s Status) String() string {
	return [...]string{"ok", "deadlock", "panic", "steplimit", "misuse", "diverged", "unsupported"}[s]
}

// traceFile (debugging aid, VERIF_TRACEFILE=<path>): every scheduling step of every run of this
// process is appended to it.
var traceFile = func() *os.File {
	if p := os.Getenv("VERIF_TRACEFILE"); p != "" {
		f, _ := os.OpenFile(p, os.O_CREATE|os.O_WRONLY|os.O_APPEND, 0o644)
		return f
	}
	return nil
}()

// Config of one simulated execution.
type Config struct {
	Seed       uint64 // schedule stream seed
	Strategy   string // uniform | pct | seqbg | fifo
	PCTDepth   int    // number of priority change points (pct)
	PCTSteps   int    // estimated run length for pct change points
	TimerProb  float64
	MaxSteps   uint64
	Replay     []int32 // when non-nil: consume these choices instead of the PRNG
	Lenient    bool    // replay: an unavailable recorded choice falls back to the default instead of ending the run as diverged
	KeepLog    int     // keep the last N events for failure reports (0 = none)
	SwitchBias float64 // uniform: probability to keep running the current goroutine if runnable
	// stall (a slow node): the StallG-th foreground goroutine started after the main one is suspended when it
	// reaches its StallAt-th decision point and stays suspended until nothing else can run (or
	// StallMax scheduling steps went by); everything else is scheduled as under uniform
	StallG   int
	StallAt  uint64
	StallMax uint64
	// StallAgain > 0: when the first suspension is over (StallMax steps of the others went by) the
	// same goroutine is suspended once more, StallAgain of its own decision points later: a client
	// that is slow twice within one operation
	StallAgain uint64
	// stretch: the StallG-th foreground goroutine is held back every time it is about to take a
	// step of the kind StretchTag (a decision-point tag such as "badger.view" or "io.remove"), for
	// StretchFor steps of the others (or until nothing else can run), at most StretchTimes times:
	// whatever that client does between "looked something up" and "used it" is stretched, again
	// and again; everything else is scheduled as under uniform
	StretchTag   string
	StretchFor   uint64
	StretchTimes int
}

// Result of one simulated execution.
type Result struct {
	Status     Status
	Detail     string   // human readable description of deadlock / panic / misuse
	Sites      []string // function names involved (blocked sites for deadlock, panic site)
	Steps      uint64
	Switches   uint64
	TimerFires uint64
	SimTimeNs  int64
	Goroutines int
	Leaked     int    // goroutines still blocked when the main goroutine and all runnable work finished
	TraceHash  uint64 // hash over (chosen goroutine, site) of every step
	SwitchHash uint64 // hash over context switches only
	Choices    []int32
	Log        []string
}

type waiter interface {
	// blocked reports whether the goroutine must stay parked. Called by whichever goroutine
	// holds the baton.
	blocked(s *Sched) bool
	// meta waiters (quiescence, background windows) are evaluated after ordinary ones.
	meta() bool
}

// G is a managed goroutine.
type G struct {
	id      int
	name    string
	parent  int
	group   int // 0 foreground, 1 background
	w       waiter
	site    uintptr
	siteTag string
	done    bool
	started bool
	prio    int64
	selPoll bool // parked in a select with nothing ready (candidate for a real re-poll)
	hand    handoff
	fn      func()
	steps   uint64
}

//go:norace
func (g *G) ID() int { return g.id }

type timer struct {
	at   int64
	seq  uint64
	fire func(now int64) // makes the timer's channel ready / runs callback
	dead bool
}

// Sched is one simulated world.
type Sched struct {
	cfg            Config
	rng            *Rand
	gs             []*G
	cur            *G
	step           uint64
	switches       uint64
	tfires         uint64
	now            int64
	timers         []*timer // kept sorted by (at, seq); small
	tseq           uint64
	closed         map[uintptr]any // closed channels, kept alive so that their address is never reused
	res            Result
	finished       bool
	doneCh         chan struct{}
	trace          uint64
	swtrace        uint64
	replayAt       int
	log            []string
	logPos         int
	pctChange      map[uint64]bool
	stallG         *G
	stallOver      bool
	stalledTwice   bool
	stretching     bool
	stretchLeft    uint64
	stretchCount   int
	stretchServed  uint64
	stallSteps     uint64
	stalledSteps   uint64
	lowPrio        int64
	defaultGroup   int
	quiesceWaiters int
	abort          bool
	orng           *Rand // order stream: select case order, map iteration order (used in replay too)
	idleFires      int   // consecutive idle timer firings without any foreground step
	repolledOnce   map[int]bool
}

// cur is the active world; nil means "not simulating": every shim passes straight through to
// the real primitive.
var world *Sched

//go:norace
func Active() bool { return world != nil }

//go:norace
func Current() *Sched { return world }

// Run executes main as goroutine 0 of a fresh world and returns when every managed goroutine
// has finished or the run ended abnormally.
//
//go:norace
func Run(cfg Config, main func()) Result {
	if world != nil {
		panic("simrt: nested Run")
	}
	if cfg.MaxSteps == 0 {
		cfg.MaxSteps = 2_000_000
	}
	if cfg.Strategy == "" {
		cfg.Strategy = "uniform"
	}
	if cfg.StallMax == 0 {
		cfg.StallMax = 20000
	}
	s := &Sched{
		cfg:     cfg,
		rng:     NewRand(cfg.Seed).Derive("sched"),
		orng:    NewRand(cfg.Seed).Derive("order"),
		closed:  map[uintptr]any{},
		doneCh:  make(chan struct{}),
		trace:   1469598103934665603,
		swtrace: 1469598103934665603,
	}
	if cfg.KeepLog > 0 {
		s.log = make([]string, cfg.KeepLog)
	}
	if cfg.Strategy == "pct" {
		s.pctChange = map[uint64]bool{}
		n := cfg.PCTSteps
		if n <= 0 {
			n = 1000
		}
		for i := 0; i < cfg.PCTDepth; i++ {
			s.pctChange[uint64(s.rng.Intn(n))+1] = true
		}
		s.lowPrio = -1
	}
	world = s
	g0 := s.newG("main", main, nil)
	s.cur = g0
	g0.started = true
	s.startReal(g0)
	g0.hand.unpark()
	<-s.doneCh
	world = nil
	s.res.Steps = s.step
	s.res.Switches = s.switches
	s.res.TimerFires = s.tfires
	s.res.SimTimeNs = s.now
	s.res.Goroutines = len(s.gs)
	s.res.TraceHash = s.trace
	s.res.SwitchHash = s.swtrace
	if s.cfg.KeepLog > 0 {
		n := s.cfg.KeepLog
		for i := 0; i < n; i++ {
			e := s.log[(s.logPos+i)%n]
			if e != "" {
				s.res.Log = append(s.res.Log, e)
			}
		}
	}
	return s.res
}

//go:norace
func (s *Sched) newG(name string, fn func(), parent *G) *G {
	g := &G{id: len(s.gs), name: name, fn: fn, parent: -1, group: s.defaultGroup}
	if parent != nil {
		g.parent = parent.id
		g.group = parent.group
	}
	g.hand.init()
	if s.cfg.Strategy == "pct" {
		g.prio = int64(s.rng.Uint64()>>2) + 1
	}
	s.gs = append(s.gs, g)
	return g
}

//go:norace
func (s *Sched) startReal(g *G) {
	go func() {
		g.hand.park()
		defer s.exitG(g)
		g.fn()
	}()
}

// exitG runs as the deferred epilogue of every managed goroutine.
//
//go:norace
func (s *Sched) exitG(g *G) {
	if r := recover(); r != nil {
		if _, ok := r.(abortRun); !ok {
			st := string(debug.Stack())
			s.fail(StatusPanic, fmt.Sprintf("panic in goroutine %d (%s): %v", g.id, g.name, r), panicSites(st))
			s.res.Detail += "\n" + trimStack(st)
		}
	}
	g.done = true
	if s.finished {
		return
	}
	s.dispatch(g)
	g.hand.close()
}

// Stop ends the run at once with status OK (the harness has reached its own verdict and does
// not want to wind the world down). The calling goroutine never continues.
//
//go:norace
func Stop() {
	s := world
	if s == nil {
		return
	}
	if !s.finished {
		s.finished = true
		s.res.Status = StatusOK
		s.res.Leaked = -1
		close(s.doneCh)
	}
	select {}
}

type abortRun struct{}

// fail records the abnormal end of the run. The caller must stop executing system code.
//
//go:norace
func (s *Sched) fail(st Status, detail string, sites []string) {
	if s.finished {
		return
	}
	s.finished = true
	s.res.Status = st
	s.res.Detail = detail
	s.res.Sites = sites
	s.res.Choices = s.res.Choices // keep
	close(s.doneCh)
}

// Fail ends the run from inside a shim (misuse detected before the Go runtime would throw).
//
//go:norace
func Fail(st Status, detail string) {
	s := world
	if s == nil {
		panic(detail)
	}
	site := callerFunc(3)
	s.fail(st, detail, []string{site})
	select {} // this goroutine never continues
}

// dispatch chooses who runs next and hands the baton over. g is the goroutine giving up the
// baton (it either parks afterwards or has finished).
//
//go:norace
func (s *Sched) dispatch(g *G) (next *G) {
	next = s.pick()
	if next == nil {
		return nil // run finished (doneCh closed by pick)
	}
	if next != g {
		s.switches++
		s.swtrace = (s.swtrace ^ uint64(next.id+1) ^ uint64(next.site)<<8) * 1099511628211
	}
	s.cur = next
	next.steps++
	if next != g || g.done {
		next.hand.unpark()
	}
	return next
}

// pick implements one scheduling decision (possibly firing timers first).
//
//go:norace
func (s *Sched) pick() *G {
	for {
		if s.finished {
			return nil
		}
		s.step++
		if s.step > s.cfg.MaxSteps {
			s.fail(StatusStepLimit, fmt.Sprintf("step limit %d reached", s.cfg.MaxSteps), nil)
			return nil
		}
		run := s.runnable()
		if len(run) == 0 {
			if len(s.timers) > 0 && s.starved() {
				s.fail(StatusDeadlock, "no foreground goroutine can ever run again (only periodic timers keep the world alive): "+s.describeBlocked(), s.blockedSites())
				return nil
			}
			if s.fireNextTimer() {
				s.idleFires++
				s.record(-1, 0)
				if s.cfg.Replay != nil && s.replayAt < len(s.cfg.Replay) {
					s.replayAt++ // the forced firing was recorded as a choice too
				}
				continue
			}
			if s.repoll() {
				continue
			}
			alive := 0
			mainDone := s.gs[0].done
			for _, g := range s.gs {
				if !g.done {
					alive++
				}
			}
			if alive == 0 || mainDone {
				s.finished = true
				s.res.Status = StatusOK
				s.res.Leaked = alive
				close(s.doneCh)
				return nil
			}
			s.fail(StatusDeadlock, s.describeBlocked(), s.blockedSites())
			return nil
		}
		choice := s.choose(run)
		if choice == nil { // timer chosen
			if !s.fireNextTimer() {
				continue
			}
			s.record(-1, 0)
			continue
		}
		if choice.group == 0 {
			s.idleFires = 0
		}
		s.record(int32(choice.id), choice.site)
		return choice
	}
}

//go:norace
func (s *Sched) record(id int32, site uintptr) {
	s.res.Choices = append(s.res.Choices, id)
	s.trace = (s.trace ^ uint64(uint32(id)) ^ uint64(site)<<20) * 1099511628211
	if traceFile != nil {
		if id < 0 {
			fmt.Fprintf(traceFile, "%d t=%dns timer\n", s.step, s.now)
		} else {
			g := s.gs[id]
			fmt.Fprintf(traceFile, "%d g%d(%s) %s %s\n", s.step, id, g.name, g.siteTag, funcName(site))
		}
	}
	if s.log != nil {
		var e string
		if id < 0 {
			e = fmt.Sprintf("%d t=%dns timer", s.step, s.now)
		} else {
			g := s.gs[id]
			e = fmt.Sprintf("%d g%d(%s) %s %s", s.step, id, g.name, g.siteTag, funcName(site))
		}
		s.log[s.logPos%len(s.log)] = e
		s.logPos++
	}
}

// runnable returns the goroutines that may continue, in id order.
//
//go:norace
func (s *Sched) runnable() []*G {
	var run []*G
	var metas []*G
	for _, g := range s.gs {
		if g.done || !g.started {
			continue
		}
		if g.w == nil {
			run = append(run, g)
			continue
		}
		if g.w.meta() {
			metas = append(metas, g)
			continue
		}
		if !g.w.blocked(s) {
			run = append(run, g)
		}
	}
	if len(metas) > 0 {
		s.quiesceWaiters = len(metas)
		base := len(run)
		for _, g := range metas {
			if base == 0 || !g.w.blocked(s) {
				run = append(run, g)
			}
		}
		sort.Slice(run, func(i, j int) bool { return run[i].id < run[j].id })
	} else {
		s.quiesceWaiters = 0
	}
	return run
}

//go:norace
func (s *Sched) choose(run []*G) *G {
	if s.cfg.Replay != nil {
		if s.replayAt >= len(s.cfg.Replay) {
			// beyond the recorded prefix: continue deterministically (lowest id)
			return s.chooseFIFO(run)
		}
		want := s.cfg.Replay[s.replayAt]
		s.replayAt++
		if want < 0 {
			if len(s.timers) == 0 {
				if s.cfg.Lenient {
					return s.chooseFIFO(run)
				}
				s.fail(StatusDiverged, fmt.Sprintf("replay step %d wants a timer, none pending", s.step), nil)
			}
			return nil
		}
		for _, g := range run {
			if int32(g.id) == want {
				return g
			}
		}
		if s.cfg.Lenient {
			return s.chooseFIFO(run)
		}
		s.fail(StatusDiverged, fmt.Sprintf("replay step %d wants g%d, not runnable", s.step, want), nil)
		return nil
	}
	timersOK := len(s.timers) > 0 && s.quiesceWaiters == 0
	if s.cfg.Strategy == "stall" && !s.stallOver {
		if s.stallG == nil {
			n := 0
			for _, g := range s.gs {
				if g.group == 0 && g.id != 0 {
					if n++; n == s.cfg.StallG {
						s.stallG = g
					}
				}
			}
		}
		if v := s.stallG; v != nil && !v.done && s.stallSteps > s.cfg.StallMax && s.cfg.StallAgain > 0 && !s.stalledTwice {
			s.stalledTwice = true
			s.stallSteps = 0
			s.cfg.StallAt = v.steps + s.cfg.StallAgain
		} else if v != nil && (v.done || s.stallSteps > s.cfg.StallMax) {
			s.stallOver = true
		} else if v != nil && v.steps >= s.cfg.StallAt {
			var others []*G
			for _, g := range run {
				if g != v {
					others = append(others, g)
				}
			}
			if len(others) == len(run) {
				// the victim is blocked anyway
			} else if len(others) > 0 {
				run = others
				s.stallSteps++
				s.stalledSteps++
			} else {
				s.stallOver = true
			}
		}
	}
	if s.cfg.Strategy == "stretch" && s.stretchCount <= s.cfg.StretchTimes {
		if s.stallG == nil {
			n := 0
			for _, g := range s.gs {
				if g.group == 0 && g.id != 0 {
					if n++; n == s.cfg.StallG {
						s.stallG = g
					}
				}
			}
		}
		if v := s.stallG; v != nil && !v.done {
			inRun := false
			var others []*G
			for _, g := range run {
				if g == v {
					inRun = true
				} else {
					others = append(others, g)
				}
			}
			switch {
			case s.stretching && (s.stretchLeft == 0 || len(others) == 0 || !inRun):
				s.stretching = false
				s.stretchServed = v.steps + 1
			case s.stretching:
				run = others
				s.stretchLeft--
				s.stalledSteps++
			case inRun && len(others) > 0 && s.stretchCount < s.cfg.StretchTimes && v.siteTag == s.cfg.StretchTag && v.steps+1 != s.stretchServed:
				s.stretching = true
				s.stretchLeft = s.cfg.StretchFor
				s.stretchCount++
				run = others
			}
		}
	}
	switch s.cfg.Strategy {
	case "fifo":
		return s.chooseFIFO(run)
	case "seqbg":
		var fg []*G
		for _, g := range run {
			if g.group == 0 {
				fg = append(fg, g)
			}
		}
		if len(fg) > 0 {
			return fg[s.rng.Intn(len(fg))]
		}
		return run[s.rng.Intn(len(run))]
	case "pct":
		if s.pctChange[s.step] && s.cur != nil && !s.cur.done {
			s.cur.prio = s.lowPrio
			s.lowPrio--
			if timersOK && s.rng.Bool(0.5) {
				return nil
			}
		}
		best := run[0]
		for _, g := range run[1:] {
			if g.prio > best.prio {
				best = g
			}
		}
		return best
	default: // uniform
		if timersOK && s.rng.Bool(s.cfg.TimerProb) {
			return nil
		}
		if s.cfg.SwitchBias > 0 && s.cur != nil && s.rng.Bool(s.cfg.SwitchBias) {
			for _, g := range run {
				if g == s.cur {
					return g
				}
			}
		}
		return run[s.rng.Intn(len(run))]
	}
}

//go:norace
func (s *Sched) chooseFIFO(run []*G) *G {
	for _, g := range run {
		if g == s.cur {
			return g
		}
	}
	return run[0]
}

// starved: periodic timers (the GC timer loop re-arms itself for ever) would hide a deadlock
// among the other goroutines from the "nothing runnable and no timer" rule. If, for many
// consecutive idle timer firings, no foreground goroutine took a single step and every
// unfinished foreground goroutine is parked on a lock-like primitive (never on a timer, a
// channel or a quiescence wait), nothing a timer can do will ever wake them.
//
//go:norace
func (s *Sched) starved() bool {
	if s.idleFires < 400 {
		return false
	}
	any := false
	for _, g := range s.gs {
		if g.done || !g.started || g.group != 0 {
			continue
		}
		any = true
		switch g.w.(type) {
		case *Mutex, rwRead, rwWrite, *condTicket, *wgTicket, *Once:
		default:
			return false
		}
	}
	return any
}

// yield is the decision point used by every shim: park the calling goroutine (optionally
// blocked on w) and let the scheduler decide who continues.
//
//go:norace
func (s *Sched) yield(w waiter, tag string, skip int) {
	g := s.cur
	if s.finished {
		select {}
	}
	var pcs [1]uintptr
	runtime.Callers(skip+1, pcs[:])
	g.site = pcs[0]
	g.siteTag = tag
	g.w = w
	if s.repolledOnce != nil && tag != "select.wait" {
		s.repolledOnce = nil
	}
	// NB: decide from the local result only; once the baton is handed over this goroutine must
	// not read scheduler state any more (the next goroutine is already running).
	if next := s.dispatch(g); next != g {
		g.hand.park() // for a finished run (next == nil) this never returns
	}
	g.w = nil
	g.selPoll = false
}

// Yield is a plain decision point (harness use: operation call/return, IO mutation points).
//
//go:norace
func Yield(tag string) {
	if s := world; s != nil {
		s.yield(nil, tag, 2)
	}
}

// Go starts fn as a managed goroutine (rewritten `go` statements call this).
//
//go:norace
func Go(fn func()) {
	s := world
	if s == nil {
		go fn()
		return
	}
	parent := s.cur
	name := callerFunc(2)
	g := s.newG(name, fn, parent)
	g.started = true
	s.startReal(g)
	s.yield(nil, "go", 2)
}

// GoNamed is Go with an explicit name and group (harness clients).
//
//go:norace
func GoNamed(name string, group int, fn func()) *G {
	s := world
	if s == nil {
		panic("simrt.GoNamed outside Run")
	}
	g := s.newG(name, fn, s.cur)
	g.group = group
	g.started = true
	s.startReal(g)
	return g
}

// SetDefaultGroup sets the group given to goroutines created from now on by goroutines of
// group 0 ... used by the harness around Open so that pool workers count as background.
//
//go:norace
func SetGroup(group int) (old int) {
	s := world
	if s == nil {
		return 0
	}
	old = s.cur.group
	s.cur.group = group
	return old
}

//go:norace
func Now() int64 {
	if s := world; s != nil {
		return s.now
	}
	return 0
}

//go:norace
func Step() uint64 {
	if s := world; s != nil {
		return s.step
	}
	return 0
}

// ---- timers ----------------------------------------------------------------------------

//go:norace
func (s *Sched) addTimer(d int64, fire func(now int64)) *timer {
	if d < 0 {
		d = 0
	}
	s.tseq++
	t := &timer{at: s.now + d, seq: s.tseq, fire: fire}
	i := sort.Search(len(s.timers), func(i int) bool {
		x := s.timers[i]
		return x.at > t.at || (x.at == t.at && x.seq > t.seq)
	})
	s.timers = append(s.timers, nil)
	copy(s.timers[i+1:], s.timers[i:])
	s.timers[i] = t
	return t
}

//go:norace
func (s *Sched) stopTimer(t *timer) bool {
	for i, x := range s.timers {
		if x == t {
			s.timers = append(s.timers[:i], s.timers[i+1:]...)
			return true
		}
	}
	return false
}

//go:norace
func (s *Sched) fireNextTimer() bool {
	if len(s.timers) == 0 {
		return false
	}
	t := s.timers[0]
	s.timers = s.timers[1:]
	if t.at > s.now {
		s.now = t.at
	}
	s.tfires++
	t.fire(s.now)
	return true
}

// AdvanceTime fires, in order, every timer due within d and moves the clock by d.
//
//go:norace
func AdvanceTime(d int64) int {
	s := world
	if s == nil {
		return 0
	}
	target := s.now + d
	n := 0
	for len(s.timers) > 0 && s.timers[0].at <= target {
		s.fireNextTimer()
		n++
	}
	s.now = target
	return n
}

//go:norace
func TimerFires() uint64 {
	if s := world; s != nil {
		return s.tfires
	}
	return 0
}

//go:norace
func PendingTimers() int {
	if s := world; s != nil {
		return len(s.timers)
	}
	return 0
}

// ---- meta waiters ------------------------------------------------------------------------

type quiesceWaiter struct{}

//go:norace
func (quiesceWaiter) blocked(*Sched) bool { return true } // runnable only when nothing else is
//go:norace
func (quiesceWaiter) meta() bool { return true }

// Quiesce parks the caller until no other managed goroutine can run (timers are not fired).
//
//go:norace
func Quiesce() {
	if s := world; s != nil {
		s.yield(quiesceWaiter{}, "quiesce", 2)
	}
}

type windowWaiter struct{ until uint64 }

//go:norace
func (w *windowWaiter) blocked(s *Sched) bool { return s.step < w.until }

//go:norace
func (w *windowWaiter) meta() bool { return true }

// Background parks the caller for up to n scheduler steps (or until nothing else can run),
// letting other goroutines make progress.
//
//go:norace
func Background(n int) {
	if s := world; s != nil && n > 0 {
		s.yield(&windowWaiter{until: s.step + uint64(n)}, "bgwindow", 2)
	}
}

// ---- diagnostics ---------------------------------------------------------------------------

//go:norace
func (s *Sched) describeBlocked() string {
	var b strings.Builder
	b.WriteString("deadlock: ")
	for _, g := range s.gs {
		if g.done {
			continue
		}
		fmt.Fprintf(&b, "[g%d %s blocked in %s at %s] ", g.id, g.name, g.siteTag, funcName(g.site))
	}
	return b.String()
}

//go:norace
func (s *Sched) blockedSites() []string {
	// the signature of a deadlock: the sites of the system's goroutines that wait for a
	// lock-like primitive; goroutines idling in a select (pool workers, timer loops) and harness
	// goroutines are described in the detail only
	var out, all []string
	for _, g := range s.gs {
		if g.done {
			continue
		}
		fn := shortFunc(funcName(g.site))
		if strings.Contains(fn, "internal/verif/") && !strings.Contains(fn, "internal/verif/containers/") {
			continue
		}
		all = append(all, g.siteTag+"@"+fn)
		switch g.w.(type) {
		case *Mutex, rwRead, rwWrite, *condTicket, *wgTicket, *Once:
			out = append(out, g.siteTag+"@"+fn)
		}
	}
	if len(out) == 0 {
		out = all
	}
	sort.Strings(out)
	return out
}

func funcName(pc uintptr) string {
	if pc == 0 {
		return "?"
	}
	f := runtime.FuncForPC(pc - 1)
	if f == nil {
		return "?"
	}
	file, line := f.FileLine(pc - 1)
	if i := strings.LastIndex(file, "/"); i >= 0 {
		file = file[i+1:]
	}
	return fmt.Sprintf("%s(%s:%d)", f.Name(), file, line)
}

// shortFunc strips the module prefix and the file:line part: signatures must survive
// unrelated edits.
//
//go:norace
func shortFunc(fn string) string {
	if i := strings.Index(fn, "("); i >= 0 && strings.HasSuffix(fn, ")") {
		// keep method receivers "(*T).M": cut only the trailing (file:line)
		if j := strings.LastIndex(fn, "("); j > 0 && strings.Contains(fn[j:], ":") {
			fn = fn[:j]
		}
	}
	fn = strings.TrimPrefix(fn, "github.com/glebziz/fs_db/")
	return fn
}

//go:norace
func callerFunc(skip int) string {
	var pcs [1]uintptr
	if runtime.Callers(skip+1, pcs[:]) == 0 {
		return "?"
	}
	return shortFunc(funcName(pcs[0]))
}

//go:norace
func panicSites(stack string) []string {
	// first fs_db frame that is not in internal/verif
	lines := strings.Split(stack, "\n")
	for _, l := range lines {
		if strings.HasPrefix(l, "github.com/glebziz/fs_db") && !strings.Contains(l, "internal/verif") {
			if i := strings.LastIndex(l, "("); i > 0 {
				l = l[:i]
			}
			return []string{strings.TrimPrefix(l, "github.com/glebziz/fs_db/")}
		}
	}
	return nil
}

//go:norace
func trimStack(st string) string {
	lines := strings.Split(st, "\n")
	if len(lines) > 40 {
		lines = lines[:40]
	}
	return strings.Join(lines, "\n")
}

// ---- probes ----------------------------------------------------------------------------------

var probes = map[string]uint64{}

// Probe counts that a rare condition was reached (evidence: reach).
//
//go:norace
func Probe(name string) { probes[name]++ }

//go:norace
func ProbeAdd(name string, n uint64) { probes[name] += n }

//go:norace
func Probes() map[string]uint64 {
	out := make(map[string]uint64, len(probes))
	for k, v := range probes {
		out[k] = v
	}
	return out
}

//go:norace
func ResetProbes() { probes = map[string]uint64{} }
