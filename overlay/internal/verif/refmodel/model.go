// Package refmodel is the sequential specification of fs_db transcribed from the statements of
// properties C01-C03 and C13 (not from the implementation): a logical clock, per key the list
// of committed versions, per open transaction its level, begin stamp and own writes.
package refmodel

import (
	"sort"
)

// Level mirrors fs_db's isolation levels.
type Level int

const (
	RU Level = iota
	RC
	RR
	SER
)

// Err is the error class an operation must return.
type Err string

const (
	OK              Err = ""
	ErrNotFound     Err = "ErrNotFound"
	ErrEmptyKey     Err = "ErrEmptyKey"
	ErrTxNotFound   Err = "ErrTxNotFound"
	ErrSerialization Err = "ErrTxSerialization"
)

// Val identifies a stored content: the id of the write that produced it (unique per write).
// ID 0 means "deleted" (tombstone).
type Val struct {
	ID   uint64
	Size int
}

func (v Val) Deleted() bool { return v.ID == 0 }

type version struct {
	stamp  uint64 // commit stamp
	wstamp uint64 // stamp of the original write
	val    Val
}

type own struct {
	stamp uint64
	val   Val
}

type tx struct {
	level  Level
	begin  uint64
	writes map[string][]own
	ended  bool
}

// Model is the reference database.
type Model struct {
	clock     uint64
	committed map[string][]version
	txs       map[int]*tx
}

func New() *Model {
	return &Model{committed: map[string][]version{}, txs: map[int]*tx{}}
}

// Clone returns a deep copy (used by the linearizability checker).
func (m *Model) Clone() *Model {
	n := &Model{clock: m.clock, committed: make(map[string][]version, len(m.committed)), txs: make(map[int]*tx, len(m.txs))}
	for k, v := range m.committed {
		n.committed[k] = append([]version(nil), v...)
	}
	for id, t := range m.txs {
		nt := &tx{level: t.level, begin: t.begin, ended: t.ended, writes: make(map[string][]own, len(t.writes))}
		for k, w := range t.writes {
			nt.writes[k] = append([]own(nil), w...)
		}
		n.txs[id] = nt
	}
	return n
}

func (m *Model) tick() uint64 { m.clock++; return m.clock }

func (m *Model) latestCommitted(key string) (version, bool) {
	vs := m.committed[key]
	if len(vs) == 0 {
		return version{}, false
	}
	return vs[len(vs)-1], true
}

func (m *Model) committedBefore(key string, stamp uint64) (version, bool) {
	vs := m.committed[key]
	for i := len(vs) - 1; i >= 0; i-- {
		if vs[i].stamp < stamp {
			return vs[i], true
		}
	}
	return version{}, false
}

// Begin opens transaction id at the given level.
func (m *Model) Begin(id int, l Level) {
	m.txs[id] = &tx{level: l, begin: m.tick(), writes: map[string][]own{}}
}

// live reports whether id names an open transaction (id < 0: the autocommit caller).
func (m *Model) live(id int) (*tx, bool) {
	if id < 0 {
		return nil, true
	}
	t, ok := m.txs[id]
	if !ok || t.ended {
		return nil, false
	}
	return t, true
}

// Set is a write of val to key through transaction id (id < 0: autocommit).
func (m *Model) Set(id int, key string, val Val) Err {
	if key == "" {
		return ErrEmptyKey
	}
	return m.write(id, key, val)
}

// Delete through transaction id.
func (m *Model) Delete(id int, key string) Err { return m.write(id, key, Val{}) }

func (m *Model) write(id int, key string, val Val) Err {
	t, ok := m.live(id)
	if !ok {
		return ErrTxNotFound
	}
	s := m.tick()
	if t == nil {
		m.committed[key] = append(m.committed[key], version{stamp: s, wstamp: s, val: val})
		return OK
	}
	t.writes[key] = append(t.writes[key], own{stamp: s, val: val})
	return OK
}

// Get returns the set of acceptable answers for a read of key through id. More than one
// answer is acceptable only in the one situation the statement of C02 leaves open: at
// ReadUncommitted, whether a value committed after a younger uncommitted write is "more
// recent" than that write.
func (m *Model) Get(id int, key string) ([]Val, Err) {
	t, ok := m.live(id)
	if !ok {
		return nil, ErrTxNotFound
	}
	level := RC
	if t != nil {
		level = t.level
	}
	var answers []Val
	switch level {
	case RU:
		// most recent write by anyone, committed or not, rolled-back ones excluded
		var (
			byCommit, byWrite          Val
			byCommitStamp, byWriteStamp uint64
			have                        bool
		)
		if v, ok := m.latestCommitted(key); ok {
			byCommit, byCommitStamp = v.val, v.stamp
			byWrite, byWriteStamp = v.val, v.wstamp
			have = true
		}
		for _, o := range m.txs {
			if o.ended {
				continue
			}
			w := o.writes[key]
			if len(w) == 0 {
				continue
			}
			l := w[len(w)-1]
			if !have || l.stamp > byCommitStamp {
				byCommit, byCommitStamp = l.val, l.stamp
			}
			if !have || l.stamp > byWriteStamp {
				byWrite, byWriteStamp = l.val, l.stamp
			}
			have = true
		}
		if !have {
			return nil, ErrNotFound
		}
		answers = append(answers, byCommit)
		if byWrite != byCommit {
			answers = append(answers, byWrite)
		}
	case RC:
		var (
			best  Val
			stamp uint64
			have  bool
		)
		if v, ok := m.latestCommitted(key); ok {
			best, stamp, have = v.val, v.stamp, true
		}
		if t != nil {
			if w := t.writes[key]; len(w) > 0 {
				l := w[len(w)-1]
				if !have || l.stamp > stamp {
					best, have = l.val, true
				}
			}
		}
		if !have {
			return nil, ErrNotFound
		}
		answers = append(answers, best)
	default: // RR, SER
		if w := t.writes[key]; len(w) > 0 {
			answers = append(answers, w[len(w)-1].val)
		} else if v, ok := m.committedBefore(key, t.begin); ok {
			answers = append(answers, v.val)
		} else {
			return nil, ErrNotFound
		}
	}
	// a deleted value reads as not found
	var out []Val
	notFound := false
	for _, a := range answers {
		if a.Deleted() {
			notFound = true
		} else {
			out = append(out, a)
		}
	}
	if len(out) == 0 {
		return nil, ErrNotFound
	}
	if notFound {
		out = append(out, Val{}) // "not found" is acceptable as well
	}
	return out, OK
}

// Keys returns every key that may or must be listed through id: must = Get certainly succeeds,
// may = Get succeeds under one of the acceptable answers only.
func (m *Model) Keys(id int) (must, may []string, e Err) {
	if _, ok := m.live(id); !ok {
		return nil, nil, ErrTxNotFound
	}
	seen := map[string]bool{}
	for k := range m.committed {
		seen[k] = true
	}
	for _, t := range m.txs {
		if t.ended {
			continue
		}
		for k := range t.writes {
			seen[k] = true
		}
	}
	for k := range seen {
		ans, err := m.Get(id, k)
		if err != OK {
			continue
		}
		optional := false
		for _, a := range ans {
			if a.Deleted() {
				optional = true
			}
		}
		if optional {
			may = append(may, k)
		} else {
			must = append(must, k)
		}
	}
	sort.Strings(must)
	sort.Strings(may)
	return must, may, OK
}

// Commit ends transaction id. A RepeatableRead/Serializable transaction fails with a
// serialization error iff some key it wrote has a committed version newer than its begin.
func (m *Model) Commit(id int) Err {
	t, ok := m.live(id)
	if !ok || t == nil {
		return ErrTxNotFound
	}
	t.ended = true
	if t.level >= RR {
		for k := range t.writes {
			if v, ok := m.latestCommitted(k); ok && v.stamp > t.begin {
				return ErrSerialization
			}
		}
	}
	keys := make([]string, 0, len(t.writes))
	for k := range t.writes {
		keys = append(keys, k)
	}
	sort.Strings(keys)
	s := m.tick() // one instant: all keys become visible together
	for _, k := range keys {
		w := t.writes[k]
		l := w[len(w)-1]
		m.committed[k] = append(m.committed[k], version{stamp: s, wstamp: l.stamp, val: l.val})
	}
	return OK
}

// Rollback ends transaction id and discards its writes; on an ended or unknown transaction it
// is a harmless no-op.
func (m *Model) Rollback(id int) Err {
	t, ok := m.live(id)
	if !ok || t == nil {
		return OK
	}
	t.ended = true
	return OK
}

// CommitFailed records that the implementation reported a non-sentinel failure of Commit (an
// injected storage error): the transaction is over and nothing of it may be visible.
func (m *Model) CommitFailed(id int) {
	if t, ok := m.txs[id]; ok {
		t.ended = true
	}
}

// Reopen: Close + Open. Open transactions are gone; committed state stays.
func (m *Model) Reopen() {
	for _, t := range m.txs {
		t.ended = true
	}
}

// OpenTxs lists the ids of open transactions, sorted.
func (m *Model) OpenTxs() []int {
	var ids []int
	for id, t := range m.txs {
		if !t.ended {
			ids = append(ids, id)
		}
	}
	sort.Ints(ids)
	return ids
}

// Known reports whether id was ever begun.
func (m *Model) Known(id int) bool { _, ok := m.txs[id]; return ok }

// Live reports whether id is an open transaction.
func (m *Model) Live(id int) bool {
	t, ok := m.txs[id]
	return ok && !t.ended
}

// LevelOf returns the level of transaction id.
func (m *Model) LevelOf(id int) Level {
	if t, ok := m.txs[id]; ok {
		return t.level
	}
	return RC
}

// CommittedKeys returns the keys whose latest committed version is a value, sorted.
func (m *Model) CommittedKeys() []string {
	var ks []string
	for k, vs := range m.committed {
		if len(vs) > 0 && !vs[len(vs)-1].val.Deleted() {
			ks = append(ks, k)
		}
	}
	sort.Strings(ks)
	return ks
}

// Committed returns the latest committed value of key.
func (m *Model) Committed(key string) (Val, bool) {
	v, ok := m.latestCommitted(key)
	if !ok || v.val.Deleted() {
		return Val{}, false
	}
	return v.val, true
}

// StateHash is a cheap fingerprint of the committed state and open transactions (evidence:
// distinct model states reached).
func (m *Model) StateHash() uint64 {
	h := uint64(1469598103934665603)
	mix := func(x uint64) { h = (h ^ x) * 1099511628211 }
	keys := make([]string, 0, len(m.committed))
	for k := range m.committed {
		keys = append(keys, k)
	}
	sort.Strings(keys)
	for _, k := range keys {
		for i := 0; i < len(k); i++ {
			mix(uint64(k[i]))
		}
		vs := m.committed[k]
		mix(uint64(len(vs)))
		if len(vs) > 0 {
			mix(vs[len(vs)-1].val.ID)
		}
	}
	for _, id := range m.OpenTxs() {
		t := m.txs[id]
		mix(uint64(id)<<8 | uint64(t.level))
		mix(uint64(len(t.writes)))
	}
	return h
}

// Fingerprint is a canonical encoding of the whole state (used as state equality by the
// linearizability checker).
func (m *Model) Fingerprint() string {
	var b []byte
	put := func(x uint64) {
		for i := 0; i < 8; i++ {
			b = append(b, byte(x>>(8*i)))
		}
	}
	keys := make([]string, 0, len(m.committed))
	for k := range m.committed {
		keys = append(keys, k)
	}
	sort.Strings(keys)
	// only relative order of stamps matters: renumber them densely
	stamps := map[uint64]bool{}
	for _, vs := range m.committed {
		for _, v := range vs {
			stamps[v.stamp] = true
			stamps[v.wstamp] = true
		}
	}
	for _, t := range m.txs {
		if t.ended {
			continue
		}
		stamps[t.begin] = true
		for _, ws := range t.writes {
			for _, w := range ws {
				stamps[w.stamp] = true
			}
		}
	}
	order := make([]uint64, 0, len(stamps))
	for s := range stamps {
		order = append(order, s)
	}
	sort.Slice(order, func(i, j int) bool { return order[i] < order[j] })
	rank := make(map[uint64]uint64, len(order))
	for i, s := range order {
		rank[s] = uint64(i + 1)
	}
	for _, k := range keys {
		b = append(b, k...)
		b = append(b, 0)
		vs := m.committed[k]
		put(uint64(len(vs)))
		for _, v := range vs {
			put(rank[v.stamp])
			put(rank[v.wstamp])
			put(v.val.ID)
		}
	}
	ids := make([]int, 0, len(m.txs))
	for id := range m.txs {
		ids = append(ids, id)
	}
	sort.Ints(ids)
	for _, id := range ids {
		t := m.txs[id]
		put(uint64(id))
		if t.ended {
			b = append(b, 'E')
			continue
		}
		b = append(b, 'O', byte(t.level))
		put(rank[t.begin])
		wk := make([]string, 0, len(t.writes))
		for k := range t.writes {
			wk = append(wk, k)
		}
		sort.Strings(wk)
		for _, k := range wk {
			b = append(b, k...)
			b = append(b, 0)
			for _, w := range t.writes[k] {
				put(rank[w.stamp])
				put(w.val.ID)
			}
		}
	}
	return string(b)
}
