// fsim is the simulation harness binary built inside the (rewritten) scratch copy of fs_db.
package main

import (
	"flag"
	"fmt"
	"io"
	"log/slog"
	"os"
	"strconv"
	"time"

	"github.com/glebziz/fs_db/internal/verif/harness"
)

func main() {
	if len(os.Args) < 2 {
		fmt.Fprintln(os.Stderr, "usage: fsim run|worker|replay|minimise|try|selftest|list ...")
		os.Exit(2)
	}
	slog.SetDefault(slog.New(slog.NewTextHandler(io.Discard, nil)))
	cmd := os.Args[1]
	fs := flag.NewFlagSet(cmd, flag.ExitOnError)
	prop := fs.String("prop", "", "property id")
	tier := fs.String("tier", "quick", "quick|thorough")
	seed := fs.Uint64("seed", 1, "VERIF_SEED")
	workers := fs.Int("workers", 16, "worker processes")
	from := fs.Int("from", 0, "")
	stride := fs.Int("stride", 1, "")
	n := fs.Int("n", 0, "")
	out := fs.String("out", "", "")
	deadline := fs.Int64("deadline", 0, "")
	evidence := fs.String("evidence", "", "")
	replays := fs.String("replays", "/verif/replays", "")
	known := fs.String("known", "/verif/known_findings.json", "")
	scratch := fs.String("scratch", "", "")
	file := fs.String("file", "", "")
	quiet := fs.Bool("quiet", false, "")
	wall := fs.Duration("wallcap", 0, "")
	runs := fs.Int("runs", 0, "override the number of runs")
	manifest := fs.String("simgen-manifest", "", "")
	caseFile := fs.String("case", "", "")
	dir := fs.String("dir", "", "")
	logPath := fs.String("log", "", "")
	mode := fs.String("mode", "work", "")
	kill := fs.Uint64("kill", 0, "")
	torn := fs.Bool("torn", false, "")
	fs.Parse(os.Args[2:])

	switch cmd {
	case "list":
		for _, id := range harness.IDs() {
			fmt.Println(id)
		}
	case "run":
		self, _ := os.Executable()
		if *scratch == "" {
			*scratch = "/dev/shm/verif-run-" + strconv.Itoa(os.Getpid())
			defer os.RemoveAll(*scratch)
		}
		code := harness.Drive(harness.DriveOpts{Prop: *prop, Tier: *tier, Seed: *seed, Workers: *workers, Self: self,
			Evidence: *evidence, ReplayDir: *replays, KnownPath: *known, Scratch: *scratch, WallCap: *wall,
			RunsOverride: *runs, SimgenManifest: *manifest})
		os.RemoveAll(*scratch)
		os.Exit(code)
	case "worker":
		p := harness.Lookup(*prop)
		if p == nil {
			fmt.Fprintln(os.Stderr, "unknown property", *prop)
			os.Exit(2)
		}
		var dl time.Time
		if *deadline != 0 {
			dl = time.Unix(0, *deadline)
		}
		os.Exit(harness.Worker(p, *seed, *tier, *from, *stride, *n, dl, *out))
	case "replay":
		os.Exit(harness.Replay(*file, *quiet))
	case "minimise":
		self, _ := os.Executable()
		os.Exit(harness.Minimise(*file, self))
	case "try":
		os.Exit(harness.Try(*file))
	case "selftest":
		self, _ := os.Executable()
		os.Exit(harness.SelfTest(*prop, *seed, *n, self))
	case "crash-child":
		os.Exit(harness.CrashChild(*caseFile, *dir, *logPath, *mode, *kill, *torn))
	case "crash-verify":
		os.Exit(harness.CrashVerify(*caseFile, *dir, *logPath))
	case "exec-case":
		os.Exit(harness.ExecCaseStdin(*prop))
	case "one":
		// run a single index in-process and print the outcome (debugging)
		p := harness.Lookup(*prop)
		o := harness.RunIndex(p, *seed, *from, *tier)
		fmt.Printf("%+v\n", o.Violation)
		fmt.Printf("steps=%d switches=%d probes=%v faults=%v inconclusive=%q infra=%q\n", o.Steps, o.Switches, o.Probes, o.Faults, o.Inconclusive, o.Infra)
		os.Stdout.Write(o.Sample)
		fmt.Println()
	default:
		fmt.Fprintln(os.Stderr, "unknown command", cmd)
		os.Exit(2)
	}
}
