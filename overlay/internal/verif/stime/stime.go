// Package stime replaces package time in the rewritten wpool sources: the clock is the
// simulator's discrete-event clock and timers are scheduler choices.
package stime

import (
	"time"

	"github.com/glebziz/fs_db/internal/verif/simrt"
)

type (
	Duration = time.Duration
	Time     = time.Time
	Month    = time.Month
	Weekday  = time.Weekday
	Location = time.Location
	Timer    = simrt.Timer
)

const (
	Nanosecond  = time.Nanosecond
	Microsecond = time.Microsecond
	Millisecond = time.Millisecond
	Second      = time.Second
	Minute      = time.Minute
	Hour        = time.Hour
	RFC3339     = time.RFC3339
	RFC3339Nano = time.RFC3339Nano
)

var UTC = time.UTC

func Now() Time                              { return simrt.TimeNow() }
func Since(t Time) Duration                  { return Now().Sub(t) }
func Until(t Time) Duration                  { return t.Sub(Now()) }
func After(d Duration) <-chan Time           { return simrt.TimeAfter(d) }
func Sleep(d Duration)                       { simrt.TimeSleep(d) }
func NewTimer(d Duration) *Timer             { return simrt.NewTimer(d) }
func AfterFunc(d Duration, f func()) *Timer  { return simrt.TimeAfterFunc(d, f) }
func ParseDuration(s string) (Duration, error) { return time.ParseDuration(s) }
func Unix(sec, nsec int64) Time              { return time.Unix(sec, nsec) }
func Date(y int, m Month, d, h, mi, s, ns int, l *Location) Time {
	return time.Date(y, m, d, h, mi, s, ns, l)
}
