// Package simos replaces package os inside fs_db's own os seam (internal/utils/os). Files stay
// real files under the world directory (Badger, ReadDir and recovery see a real tree); added
// are decision points, per-root capacity accounting, ENOSPC faults (all-or-nothing or after a
// partial write), a mutation counter and the crash point used by crashsim.
package simos

import (
	"io/fs"
	"os"
	"path/filepath"
	"strings"
	"syscall"

	"github.com/glebziz/fs_db/internal/verif/simrt"
)

type (
	FileMode  = os.FileMode
	DirEntry  = os.DirEntry
	FileInfo  = os.FileInfo
	PathError = os.PathError
)

var (
	ErrNotExist   = os.ErrNotExist
	ErrExist      = os.ErrExist
	ErrPermission = os.ErrPermission
	ErrClosed     = os.ErrClosed
)

const (
	O_RDONLY = os.O_RDONLY
	O_WRONLY = os.O_WRONLY
	O_RDWR   = os.O_RDWR
	O_APPEND = os.O_APPEND
	O_CREATE = os.O_CREATE
	O_EXCL   = os.O_EXCL
	O_SYNC   = os.O_SYNC
	O_TRUNC  = os.O_TRUNC
	ModePerm = os.ModePerm
)

// Root describes the simulated disk below one storage root.
type Root struct {
	Path       string
	Reported   int64 // capacity the disk reports (Usage: Free = Reported - Used)
	Real       int64 // capacity writes really have (<= Reported models quota / reserved blocks)
	Used       int64
	Partial    bool // a failing write first writes what still fits
	FailCreate int  // fail the n-th Create below this root (0 = never)
	creates    int
}

// Disk is the fault state of the simulated file system (one per world; nil = no limits).
type Disk struct {
	Roots []*Root
	Stats struct {
		Creates, Writes, Closes, Removes, Mkdirs, Opens, ReadDirs uint64
		ENOSPC, PartialWrites, CreateErrs                         uint64
		BytesWritten                                              uint64
	}
}

var disk *Disk

// Install sets the simulated disk for the current world (nil removes it).
//
//go:norace
func Install(d *Disk) {
	disk = d
	if d == nil {
		return
	}
	for _, r := range d.Roots {
		r.Path = filepath.Clean(r.Path)
		r.Used = 0
		_ = filepath.WalkDir(r.Path, func(_ string, e fs.DirEntry, err error) error {
			if err == nil && e.Type().IsRegular() {
				if fi, err := e.Info(); err == nil {
					r.Used += fi.Size()
				}
			}
			return nil
		})
	}
}

//go:norace
func Current() *Disk { return disk }

//go:norace
func (d *Disk) rootOf(path string) *Root {
	if d == nil {
		return nil
	}
	path = filepath.Clean(path)
	for _, r := range d.Roots {
		if path == r.Path || strings.HasPrefix(path, r.Path+string(filepath.Separator)) {
			return r
		}
	}
	return nil
}

// Free reports the free space of the root containing path, ok=false if the path is not on a
// simulated root.
//
//go:norace
func Free(path string) (free uint64, total uint64, ok bool) {
	r := disk.rootOf(path)
	if r == nil {
		return 0, 0, false
	}
	f := r.Reported - r.Used
	if f < 0 {
		f = 0
	}
	return uint64(f), uint64(r.Reported), true
}

//go:norace
func MkdirAll(path string, perm FileMode) error {
	simrt.Mutation("mkdir", path)
	if disk != nil {
		disk.Stats.Mkdirs++
	}
	return os.MkdirAll(path, perm)
}

//go:norace
func ReadDir(name string) ([]DirEntry, error) {
	simrt.Yield("os.ReadDir")
	if disk != nil {
		disk.Stats.ReadDirs++
	}
	return os.ReadDir(name)
}

//go:norace
func Remove(name string) error {
	simrt.Mutation("remove", name)
	var size int64
	r := disk.rootOf(name)
	if r != nil {
		if fi, err := os.Lstat(name); err == nil && fi.Mode().IsRegular() {
			size = fi.Size()
		}
	}
	err := os.Remove(name)
	if err == nil && r != nil {
		r.Used -= size
	}
	if disk != nil {
		disk.Stats.Removes++
	}
	return err
}

//go:norace
func Stat(name string) (FileInfo, error) { simrt.Yield("os.Stat"); return os.Stat(name) }

//go:norace
func Lstat(name string) (FileInfo, error) { simrt.Yield("os.Lstat"); return os.Lstat(name) }

// File mirrors the part of *os.File that fs_db and its callers use.
type File struct {
	f     *os.File
	path  string
	root  *Root
	write bool
}

//go:norace
func Create(name string) (*File, error) {
	simrt.Mutation("create", name)
	r := disk.rootOf(name)
	if disk != nil {
		disk.Stats.Creates++
	}
	if r != nil {
		r.creates++
		if r.FailCreate > 0 && r.creates == r.FailCreate {
			disk.Stats.CreateErrs++
			return nil, &os.PathError{Op: "open", Path: name, Err: syscall.EIO}
		}
	}
	f, err := os.Create(name)
	if err != nil {
		return nil, err
	}
	return &File{f: f, path: name, root: r, write: true}, nil
}

//go:norace
func Open(name string) (*File, error) {
	simrt.Yield("os.Open")
	if disk != nil {
		disk.Stats.Opens++
	}
	f, err := os.Open(name)
	if err != nil {
		return nil, err
	}
	return &File{f: f, path: name}, nil
}

//go:norace
func OpenFile(name string, flag int, perm FileMode) (*File, error) {
	simrt.Mutation("openfile", name)
	f, err := os.OpenFile(name, flag, perm)
	if err != nil {
		return nil, err
	}
	return &File{f: f, path: name, root: disk.rootOf(name), write: flag&(O_WRONLY|O_RDWR) != 0}, nil
}

//go:norace
func (f *File) Name() string { return f.f.Name() }

//go:norace
func (f *File) Read(p []byte) (int, error) { return f.f.Read(p) }

//go:norace
func (f *File) ReadAt(p []byte, off int64) (int, error) { return f.f.ReadAt(p, off) }

//go:norace
func (f *File) Seek(offset int64, whence int) (int64, error) { return f.f.Seek(offset, whence) }

//go:norace
func (f *File) Stat() (FileInfo, error) { return f.f.Stat() }

//go:norace
func (f *File) Sync() error { simrt.Mutation("sync", f.path); return f.f.Sync() }

//go:norace
func (f *File) Fd() uintptr { return f.f.Fd() }

//go:norace
func (f *File) Write(p []byte) (int, error) {
	torn := simrt.Mutation("write", f.path)
	if torn {
		// crash point inside this write: a prefix reaches the disk, then the process dies
		if len(p) > 1 {
			_, _ = f.f.Write(p[:len(p)/2])
		}
		simrt.KillNow()
	}
	if disk != nil {
		disk.Stats.Writes++
	}
	if r := f.root; r != nil {
		limit := r.Real
		if limit > r.Reported {
			limit = r.Reported
		}
		room := limit - r.Used
		if room < 0 {
			room = 0
		}
		if int64(len(p)) > room {
			disk.Stats.ENOSPC++
			n := 0
			if r.Partial && room > 0 {
				n, _ = f.f.Write(p[:room])
				r.Used += int64(n)
				disk.Stats.PartialWrites++
				disk.Stats.BytesWritten += uint64(n)
			}
			return n, &os.PathError{Op: "write", Path: f.path, Err: syscall.ENOSPC}
		}
	}
	n, err := f.f.Write(p)
	if f.root != nil {
		f.root.Used += int64(n)
	}
	if disk != nil {
		disk.Stats.BytesWritten += uint64(n)
	}
	return n, err
}

//go:norace
func (f *File) WriteString(s string) (int, error) { return f.Write([]byte(s)) }

//go:norace
func (f *File) Close() error {
	if f.write {
		simrt.Mutation("close", f.path)
		if disk != nil {
			disk.Stats.Closes++
		}
	}
	return f.f.Close()
}
