// Package simos replaces package os inside fs_db's own os seam (internal/utils/os). Files stay
// real files under the world directory (Badger, ReadDir and recovery see a real tree); added
// are decision points, per-root capacity accounting, ENOSPC faults (all-or-nothing or after a
// partial write), a mutation counter and the crash point used by crashsim.
package simos

import (
	"io/fs"
	"os"
	"path/filepath"
	"strings"
	"syscall"
	"time"

	"github.com/glebziz/fs_db/internal/verif/simrt"
)

type (
	FileMode  = os.FileMode
	DirEntry  = os.DirEntry
	FileInfo  = os.FileInfo
	PathError = os.PathError
)

var (
	ErrNotExist   = os.ErrNotExist
	ErrExist      = os.ErrExist
	ErrPermission = os.ErrPermission
	ErrClosed     = os.ErrClosed
)

const (
	O_RDONLY = os.O_RDONLY
	O_WRONLY = os.O_WRONLY
	O_RDWR   = os.O_RDWR
	O_APPEND = os.O_APPEND
	O_CREATE = os.O_CREATE
	O_EXCL   = os.O_EXCL
	O_SYNC   = os.O_SYNC
	O_TRUNC  = os.O_TRUNC
	ModePerm = os.ModePerm
)

// Root describes the simulated disk below one storage root.
type Root struct {
	Path       string
	Reported   int64 // capacity the disk reports (Usage: Free = Reported - Used)
	Real       int64 // capacity writes really have (<= Reported models quota / reserved blocks)
	Used       int64
	Partial    bool // a failing write first writes what still fits
	FailCreate int  // fail the n-th Create below this root (0 = never)
	creates    int
}

// Disk is the fault state of the simulated file system (one per world; nil = no limits).
type Disk struct {
	Roots []*Root
	// EIOArmed: the next file write that would take the bytes written since arming beyond EIOAfter
	// fails with EIO (nothing of it is written); fires once
	EIOArmed     bool
	EIOAfter     int64
	eioSeen      int64
	FailMkdirs   int // this many of the next MkdirAll calls fail (ENOSPC: no inode / no block for the directory)
	FailReadDirs int // this many of the next ReadDir calls fail (EIO: the directory cannot be listed right now)
	// FailReadDirsFull: this many of the next ReadDir calls of a directory holding at least
	// FullCount entries fail (EIO); listings of other directories are not affected
	FailReadDirsFull int
	FullCount        int
	Stats            struct {
		Creates, Writes, Closes, Removes, Mkdirs, Opens, ReadDirs      uint64
		ENOSPC, PartialWrites, CreateErrs, MkdirErrs, ReadDirErrs, EIO uint64
		BytesWritten                                                   uint64
	}
}

var disk *Disk

// Install sets the simulated disk for the current world (nil removes it).
//
//go:norace
func Install(d *Disk) {
	disk = d
	if d == nil {
		return
	}
	for _, r := range d.Roots {
		r.Path = filepath.Clean(r.Path)
		r.Used = 0
		_ = filepath.WalkDir(r.Path, func(_ string, e fs.DirEntry, err error) error {
			if err == nil && e.Type().IsRegular() {
				if fi, err := e.Info(); err == nil {
					r.Used += fi.Size()
				}
			}
			return nil
		})
	}
}

//go:norace
func Current() *Disk { return disk }

//go:norace
func (d *Disk) rootOf(path string) *Root {
	if d == nil {
		return nil
	}
	path = filepath.Clean(path)
	for _, r := range d.Roots {
		if path == r.Path || strings.HasPrefix(path, r.Path+string(filepath.Separator)) {
			return r
		}
	}
	return nil
}

// Free reports the free space of the root containing path, ok=false if the path is not on a
// simulated root.
//
//go:norace
func Free(path string) (free uint64, total uint64, ok bool) {
	r := disk.rootOf(path)
	if r == nil {
		return 0, 0, false
	}
	f := r.Reported - r.Used
	if f < 0 {
		f = 0
	}
	return uint64(f), uint64(r.Reported), true
}

//go:norace
func MkdirAll(path string, perm FileMode) error {
	simrt.Mutation("mkdir", path)
	if disk != nil {
		disk.Stats.Mkdirs++
		if disk.FailMkdirs > 0 {
			disk.FailMkdirs--
			disk.Stats.MkdirErrs++
			return &PathError{Op: "mkdir", Path: path, Err: syscall.ENOSPC}
		}
	}
	return os.MkdirAll(path, perm)
}

//go:norace
func ReadDir(name string) ([]DirEntry, error) {
	simrt.Yield("os.ReadDir")
	if disk != nil {
		disk.Stats.ReadDirs++
		if disk.FailReadDirs > 0 {
			disk.FailReadDirs--
			disk.Stats.ReadDirErrs++
			return nil, &PathError{Op: "open", Path: name, Err: syscall.EIO}
		}
		if disk.FailReadDirsFull > 0 && disk.FullCount > 0 {
			if ents, err := os.ReadDir(name); err == nil && len(ents) >= disk.FullCount {
				disk.FailReadDirsFull--
				disk.Stats.ReadDirErrs++
				return nil, &PathError{Op: "open", Path: name, Err: syscall.EIO}
			}
		}
	}
	return os.ReadDir(name)
}

//go:norace
func Remove(name string) error {
	simrt.Mutation("remove", name)
	var size int64
	r := disk.rootOf(name)
	if r != nil {
		if fi, err := os.Lstat(name); err == nil && fi.Mode().IsRegular() {
			size = fi.Size()
		}
	}
	err := os.Remove(name)
	if err == nil && r != nil {
		r.Used -= size
	}
	if disk != nil {
		disk.Stats.Removes++
	}
	return err
}

//go:norace
func Stat(name string) (FileInfo, error) { simrt.Yield("os.Stat"); return os.Stat(name) }

//go:norace
func Lstat(name string) (FileInfo, error) { simrt.Yield("os.Lstat"); return os.Lstat(name) }

// File mirrors the part of *os.File that fs_db and its callers use.
type File struct {
	f     *os.File
	path  string
	root  *Root
	write bool
}

//go:norace
func Create(name string) (*File, error) {
	simrt.Mutation("create", name)
	r := disk.rootOf(name)
	if disk != nil {
		disk.Stats.Creates++
	}
	if r != nil {
		r.creates++
		if r.FailCreate > 0 && r.creates == r.FailCreate {
			disk.Stats.CreateErrs++
			return nil, &os.PathError{Op: "open", Path: name, Err: syscall.EIO}
		}
	}
	f, err := os.Create(name)
	if err != nil {
		return nil, err
	}
	return &File{f: f, path: name, root: r, write: true}, nil
}

//go:norace
func Open(name string) (*File, error) {
	simrt.Yield("os.Open")
	if disk != nil {
		disk.Stats.Opens++
	}
	f, err := os.Open(name)
	if err != nil {
		return nil, err
	}
	return &File{f: f, path: name}, nil
}

//go:norace
func OpenFile(name string, flag int, perm FileMode) (*File, error) {
	simrt.Mutation("openfile", name)
	f, err := os.OpenFile(name, flag, perm)
	if err != nil {
		return nil, err
	}
	return &File{f: f, path: name, root: disk.rootOf(name), write: flag&(O_WRONLY|O_RDWR) != 0}, nil
}

//go:norace
func (f *File) Name() string { return f.f.Name() }

//go:norace
func (f *File) Read(p []byte) (int, error) { return f.f.Read(p) }

//go:norace
func (f *File) ReadAt(p []byte, off int64) (int, error) { return f.f.ReadAt(p, off) }

//go:norace
func (f *File) Seek(offset int64, whence int) (int64, error) { return f.f.Seek(offset, whence) }

//go:norace
func (f *File) Stat() (FileInfo, error) { return f.f.Stat() }

//go:norace
func (f *File) Sync() error { simrt.Mutation("sync", f.path); return f.f.Sync() }

//go:norace
func (f *File) Fd() uintptr { return f.f.Fd() }

//go:norace
func (f *File) Write(p []byte) (int, error) {
	torn := simrt.Mutation("write", f.path)
	if torn {
		// crash point inside this write: a prefix reaches the disk, then the process dies
		if len(p) > 1 {
			_, _ = f.f.Write(p[:len(p)/2])
		}
		simrt.KillNow()
	}
	if disk != nil {
		disk.Stats.Writes++
	}
	if disk != nil && disk.EIOArmed {
		if disk.eioSeen+int64(len(p)) > disk.EIOAfter {
			disk.EIOArmed, disk.eioSeen = false, 0
			disk.Stats.EIO++
			return 0, &os.PathError{Op: "write", Path: f.path, Err: syscall.EIO}
		}
		disk.eioSeen += int64(len(p))
	}
	if r := f.root; r != nil {
		limit := r.Real
		if limit > r.Reported {
			limit = r.Reported
		}
		room := limit - r.Used
		if room < 0 {
			room = 0
		}
		if int64(len(p)) > room {
			disk.Stats.ENOSPC++
			n := 0
			if r.Partial && room > 0 {
				n, _ = f.f.Write(p[:room])
				r.Used += int64(n)
				disk.Stats.PartialWrites++
				disk.Stats.BytesWritten += uint64(n)
			}
			return n, &os.PathError{Op: "write", Path: f.path, Err: syscall.ENOSPC}
		}
	}
	n, err := f.f.Write(p)
	if f.root != nil {
		f.root.Used += int64(n)
	}
	if disk != nil {
		disk.Stats.BytesWritten += uint64(n)
	}
	return n, err
}

//go:norace
func (f *File) WriteString(s string) (int, error) { return f.Write([]byte(s)) }

//go:norace
func (f *File) Close() error {
	if f.write {
		simrt.Mutation("close", f.path)
		if disk != nil {
			disk.Stats.Closes++
		}
	}
	return f.f.Close()
}

// ---- the rest of package os that file-handling code is likely to use: mutations are decision
// and crash points and keep the capacity accounting right, everything else is passed through ----

//go:norace
func fileSize(name string) int64 {
	if fi, err := os.Lstat(name); err == nil && fi.Mode().IsRegular() {
		return fi.Size()
	}
	return 0
}

//go:norace
func Truncate(name string, size int64) error {
	simrt.Mutation("truncate", name)
	r := disk.rootOf(name)
	old := fileSize(name)
	err := os.Truncate(name, size)
	if err == nil && r != nil {
		r.Used += fileSize(name) - old
	}
	return err
}

//go:norace
func (f *File) Truncate(size int64) error {
	simrt.Mutation("truncate", f.path)
	old := fileSize(f.path)
	err := f.f.Truncate(size)
	if err == nil && f.root != nil {
		f.root.Used += fileSize(f.path) - old
	}
	return err
}

//go:norace
func Rename(oldpath, newpath string) error {
	simrt.Mutation("rename", oldpath)
	ro, rn := disk.rootOf(oldpath), disk.rootOf(newpath)
	size, replaced := fileSize(oldpath), fileSize(newpath)
	err := os.Rename(oldpath, newpath)
	if err == nil {
		if ro != nil {
			ro.Used -= size
		}
		if rn != nil {
			rn.Used += size - replaced
		}
	}
	return err
}

//go:norace
func RemoveAll(path string) error {
	simrt.Mutation("removeall", path)
	err := os.RemoveAll(path)
	if disk != nil {
		Install(disk) // recount what the roots hold
	}
	return err
}

//go:norace
func Mkdir(name string, perm FileMode) error {
	simrt.Mutation("mkdir", name)
	if disk != nil {
		disk.Stats.Mkdirs++
		if disk.FailMkdirs > 0 {
			disk.FailMkdirs--
			disk.Stats.MkdirErrs++
			return &PathError{Op: "mkdir", Path: name, Err: syscall.ENOSPC}
		}
	}
	return os.Mkdir(name, perm)
}

//go:norace
func ReadFile(name string) ([]byte, error) {
	simrt.Yield("os.ReadFile")
	return os.ReadFile(name)
}

//go:norace
func WriteFile(name string, data []byte, perm FileMode) error {
	f, err := OpenFile(name, O_WRONLY|O_CREATE|O_TRUNC, perm)
	if err != nil {
		return err
	}
	_, err = f.Write(data)
	if cerr := f.Close(); err == nil {
		err = cerr
	}
	return err
}

//go:norace
func (f *File) WriteAt(p []byte, off int64) (int, error) {
	simrt.Mutation("write", f.path)
	old := fileSize(f.path)
	n, err := f.f.WriteAt(p, off)
	if f.root != nil {
		f.root.Used += fileSize(f.path) - old
	}
	return n, err
}

//go:norace
func (f *File) Chmod(mode FileMode) error { return f.f.Chmod(mode) }

//go:norace
func (f *File) ReadDir(n int) ([]DirEntry, error) { return f.f.ReadDir(n) }

//go:norace
func (f *File) Readdirnames(n int) ([]string, error) { return f.f.Readdirnames(n) }

func Chmod(name string, mode FileMode) error        { return os.Chmod(name, mode) }
func Chtimes(name string, a, m time.Time) error     { return os.Chtimes(name, a, m) }
func IsNotExist(err error) bool                     { return os.IsNotExist(err) }
func IsExist(err error) bool                        { return os.IsExist(err) }
func IsPermission(err error) bool                   { return os.IsPermission(err) }
func Getenv(key string) string                      { return os.Getenv(key) }
func LookupEnv(key string) (string, bool)           { return os.LookupEnv(key) }
func Getpid() int                                   { return os.Getpid() }
func Getwd() (string, error)                        { return os.Getwd() }
func TempDir() string                               { return os.TempDir() }
func MkdirTemp(dir, pattern string) (string, error) { return os.MkdirTemp(dir, pattern) }
func Hostname() (string, error)                     { return os.Hostname() }
func Exit(code int)                                 { os.Exit(code) }
func SameFile(a, b FileInfo) bool                   { return os.SameFile(a, b) }
func Readlink(name string) (string, error)          { return os.Readlink(name) }
func Symlink(oldname, newname string) error {
	simrt.Mutation("symlink", newname)
	return os.Symlink(oldname, newname)
}
func Link(oldname, newname string) error {
	simrt.Mutation("link", newname)
	return os.Link(oldname, newname)
}

var (
	Stdin  = os.Stdin
	Stdout = os.Stdout
	Stderr = os.Stderr
	Args   = os.Args

	ErrInvalid          = os.ErrInvalid
	ErrDeadlineExceeded = os.ErrDeadlineExceeded
	ErrNoDeadline       = os.ErrNoDeadline
)

type (
	LinkError    = os.LinkError
	SyscallError = os.SyscallError
	Signal       = os.Signal
)
