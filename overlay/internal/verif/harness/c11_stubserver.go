package harness

import (
	"errors"
	"fmt"
	"net"
	"time"

	"google.golang.org/grpc"

	grpcstore "github.com/glebziz/fs_db/internal/delivery/grpc/store"
	store "github.com/glebziz/fs_db/internal/proto"
	"github.com/glebziz/fs_db/internal/utils/grpc/interceptors/server"
)

// startStubServer serves the real delivery service (with a stand-in use case behind it) on a
// loopback port with the interceptor chain of app.New.
func startStubServer(svc *grpcstore.Service) (stop func(), addr string, err error) {
	lis, err := net.Listen("tcp", "127.0.0.1:0")
	if err != nil {
		return nil, "", err
	}
	s := grpc.NewServer(
		grpc.ChainUnaryInterceptor(server.LoggingInterceptor, server.ContextInterceptor),
		grpc.ChainStreamInterceptor(server.StreamLoggingInterceptor, server.ContextStreamInterceptor),
	)
	store.RegisterStoreV1Server(s, svc)
	go s.Serve(lis)
	addr = fmt.Sprintf("127.0.0.1:%d", lis.Addr().(*net.TCPAddr).Port)
	deadline := time.Now().Add(3 * time.Second)
	for time.Now().Before(deadline) {
		if c, err := net.DialTimeout("tcp", addr, 100*time.Millisecond); err == nil {
			c.Close()
			return s.Stop, addr, nil
		}
		time.Sleep(time.Millisecond)
	}
	s.Stop()
	return nil, "", errors.New("stub server did not come up")
}
