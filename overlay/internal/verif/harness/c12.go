package harness

import (
	"encoding/json"

	"github.com/glebziz/fs_db/internal/verif/simrt"
)

type C12Case struct {
	Engine string      `json:"engine"` // async | db
	Async  *AsyncCase  `json:"async,omitempty"`
	DB     *CreateCase `json:"db,omitempty"`
}

type propC12 struct{}

func init() { Register(propC12{}) }

func (propC12) ID() string    { return "C12" }
func (propC12) Level() string { return "exploration" }
func (propC12) Rule() string {
	return "cases: seeded Write-size sequences (0, 1, 7, 511..513, 32767..32769; 0-6 writes) x storing-side buffer sizes x optional storing failure x seeded schedule; engine asyncsim = the read-writer alone with a storing goroutine that drains it like io.Copy, engine dbsim = db.Create on a whole inline database (content read back with Get); distinct = hash(case, context-switch trace); non-trivial = a Read of the storing side overlapped a Write/Close of the writer (asyncsim) or the storing goroutine ran concurrently with the writer (dbsim)"
}
func (propC12) Assumptions() []string {
	return []string{
		"interleavings at the granularity of sync/atomic operations of the read-writer and the store path",
		"the gRPC face of Create is covered by C10/C11's streaming checks, not here",
	}
}
func (propC12) RealStub() map[string]string {
	return map[string]string{"internal/utils/async": "real (rewritten sync)", "pkg/inline/db.Create + store use case + Badger + files (engine dbsim)": "real",
		"storing side (engine asyncsim)": "harness goroutine reading with seeded buffer sizes"}
}
func (propC12) Runs(tier string) int {
	if tier == "thorough" {
		return 1_500_000
	}
	return 120_000
}
func (propC12) Gen(r *simrt.Rand, idx int, tier string) any {
	if createGen != nil && idx%12 == 0 {
		cc := createGen(r)
		return C12Case{Engine: "db", DB: &cc}
	}
	ac := asyncGen(r)
	return C12Case{Engine: "async", Async: &ac}
}
func (propC12) Decode(b json.RawMessage) (any, error) {
	var c C12Case
	err := json.Unmarshal(b, &c)
	return c, err
}
func (propC12) Exec(x any, choices []int32) RunOut {
	c := x.(C12Case)
	if c.Engine == "db" {
		return createExec(*c.DB, choices)
	}
	out, _ := asyncExec(*c.Async, choices)
	return out
}
func (propC12) Shrink(x any) []any {
	c := x.(C12Case)
	var out []any
	if c.Engine != "async" {
		return nil
	}
	a := *c.Async
	add := func(d AsyncCase) {
		for k := 0; k < 6; k++ {
			e := d
			e.Sched.Seed = simrt.Mix(d.Sched.Seed + uint64(k))
			out = append(out, C12Case{Engine: "async", Async: &e})
		}
	}
	for i := range a.Writes {
		d := a
		d.Writes = append(append([]int(nil), a.Writes[:i]...), a.Writes[i+1:]...)
		add(d)
	}
	for i, n := range a.Writes {
		if n > 1 {
			d := a
			d.Writes = append([]int(nil), a.Writes...)
			d.Writes[i] = 1
			add(d)
		}
	}
	if len(a.ReadBufs) > 1 {
		d := a
		d.ReadBufs = a.ReadBufs[:1]
		add(d)
	}
	return out
}

// dbsim part (set by dbsim_create.go once the database engine exists)
type CreateCase struct {
	Sched  SchedSpec  `json:"sched"`
	Writes []int      `json:"writes"`
	World  WorldSpec  `json:"world"`
	Key    string     `json:"key"`
	Prev   int        `json:"prev"` // size of a previous value of the key (-1: none)
	NoRoom bool       `json:"no_room,omitempty"`
	Caps   []RootSpec `json:"caps,omitempty"`   // root capacities installed after the previous value was stored
	Client string     `json:"client,omitempty"` // "" = inline; simgrpc = the file is created through the external client (stream writer, delivery service, stream reader)
	// Then: a second file created after the first one was closed (whatever its fate), with room on
	// every root again: it must store exactly its own writes
	Then []int `json:"then,omitempty"`
	// MidSet > 0: before the MidSet-th Write (1-based; len(Writes)+1 = before Close) the writer
	// stores another key with a plain Set, which must return and be readable: an open file must not
	// stand in the way of other writes
	MidSet int `json:"mid_set,omitempty"`
}

var (
	createGen  func(r *simrt.Rand) CreateCase
	createExec func(c CreateCase, choices []int32) RunOut
)
