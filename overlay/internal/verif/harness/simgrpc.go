package harness

import (
	"context"
	"errors"
	"fmt"
	"io"
	"strings"

	"google.golang.org/grpc"
	"google.golang.org/grpc/codes"
	"google.golang.org/grpc/metadata"
	"google.golang.org/grpc/status"
	"google.golang.org/protobuf/proto"

	"github.com/glebziz/fs_db"
	store "github.com/glebziz/fs_db/internal/proto"
	"github.com/glebziz/fs_db/internal/utils/grpc/interceptors/server"
	"github.com/glebziz/fs_db/internal/verif/sctx"
	"github.com/glebziz/fs_db/internal/verif/simrt"
	externaldb "github.com/glebziz/fs_db/pkg/external/db"
)

// simgrpc: the network seam. The generated client needs only grpc.ClientConnInterface, the
// generated server registration only grpc.ServiceRegistrar; both are implemented here in
// process. Messages are proto-marshalled and unmarshalled, outgoing metadata becomes incoming
// metadata, the interceptor chain of app.New is applied, a handler error travels as a status
// proto. Stream semantics follow grpc-go: SendMsg on a finished/broken stream returns io.EOF
// and the status is delivered by RecvMsg; server RecvMsg returns io.EOF after CloseSend and a
// Canceled status after the client went away. Handlers of streaming calls run as managed
// goroutines. Faults: the link is cut after the k-th message in one direction.

type grpcLink struct {
	descs   map[string]*grpc.ServiceDesc
	impls   map[string]any
	unary   []grpc.UnaryServerInterceptor
	streamI []grpc.StreamServerInterceptor

	down    bool
	cutDir  string
	cutLeft int // messages that still pass in cutDir before the cut (-1: not armed)
	fired   *bool
	streams []*simStream
	Stats   struct{ Unary, Streams, MsgC2S, MsgS2C, Cuts uint64 }
}

func newGrpcLink() *grpcLink {
	return &grpcLink{descs: map[string]*grpc.ServiceDesc{}, impls: map[string]any{}, cutLeft: -1,
		unary:   []grpc.UnaryServerInterceptor{server.LoggingInterceptor, server.ContextInterceptor},
		streamI: []grpc.StreamServerInterceptor{server.StreamLoggingInterceptor, server.ContextStreamInterceptor}}
}

func (l *grpcLink) RegisterService(desc *grpc.ServiceDesc, impl any) {
	l.descs[desc.ServiceName] = desc
	l.impls[desc.ServiceName] = impl
}

func (l *grpcLink) CutAfter(dir string, n int, fired *bool) {
	l.cutDir, l.cutLeft, l.fired = dir, n, fired
}

func (l *grpcLink) Heal() {
	l.down = false
	l.cutLeft = -1
}

// pass accounts for one message in direction dir; false = the link is (now) down.
func (l *grpcLink) pass(dir string) bool {
	if l.down {
		return false
	}
	if dir == "c2s" {
		l.Stats.MsgC2S++
	} else {
		l.Stats.MsgS2C++
	}
	if l.cutLeft >= 0 && l.cutDir == dir {
		if l.cutLeft == 0 {
			l.cut()
			return false
		}
		l.cutLeft--
	}
	return true
}

func (l *grpcLink) cut() {
	l.down = true
	l.cutLeft = -1
	l.Stats.Cuts++
	if l.fired != nil {
		*l.fired = true
	}
	for _, s := range l.streams {
		s.breakLink()
	}
	l.streams = nil
}

func split(method string) (svc, m string) {
	method = strings.TrimPrefix(method, "/")
	i := strings.LastIndex(method, "/")
	if i < 0 {
		return "", method
	}
	return method[:i], method[i+1:]
}

func serverCtx(ctx context.Context) (context.Context, context.CancelFunc) {
	base := context.Background()
	if md, ok := metadata.FromOutgoingContext(ctx); ok {
		base = metadata.NewIncomingContext(base, md.Copy())
	}
	return sctx.WithCancel(base)
}

func wireErr(err error) error {
	// status -> proto bytes -> status, details included
	st := status.Convert(err)
	b, merr := proto.Marshal(st.Proto())
	if merr != nil {
		return status.Error(codes.Internal, merr.Error())
	}
	var sp = st.Proto()
	sp.Reset()
	if uerr := proto.Unmarshal(b, sp); uerr != nil {
		return status.Error(codes.Internal, uerr.Error())
	}
	return status.FromProto(sp).Err()
}

func wireMsg(dst, src any) error {
	b, err := proto.Marshal(src.(proto.Message))
	if err != nil {
		return err
	}
	return proto.Unmarshal(b, dst.(proto.Message))
}

var errUnavailable = status.Error(codes.Unavailable, "connection error: the link is down (simulated)")

// Invoke is a unary call.
func (l *grpcLink) Invoke(ctx context.Context, method string, args, reply any, _ ...grpc.CallOption) error {
	simrt.Yield("grpc.invoke")
	l.Stats.Unary++
	if err := ctx.Err(); err != nil {
		return status.FromContextError(err).Err()
	}
	svc, m := split(method)
	desc := l.descs[svc]
	if desc == nil {
		return status.Error(codes.Unimplemented, "unknown service "+svc)
	}
	var md *grpc.MethodDesc
	for i := range desc.Methods {
		if desc.Methods[i].MethodName == m {
			md = &desc.Methods[i]
		}
	}
	if md == nil {
		return status.Error(codes.Unimplemented, "unknown method "+m)
	}
	if !l.pass("c2s") {
		return errUnavailable
	}
	sctxv, cancel := serverCtx(ctx)
	defer cancel()
	dec := func(in any) error { return wireMsg(in, args) }
	resp, err := md.Handler(l.impls[svc], sctxv, dec, chainUnary(l.unary))
	simrt.Yield("grpc.reply")
	if !l.pass("s2c") {
		return errUnavailable
	}
	if err != nil {
		return wireErr(err)
	}
	return wireMsg(reply, resp)
}

func chainUnary(ints []grpc.UnaryServerInterceptor) grpc.UnaryServerInterceptor {
	return func(ctx context.Context, req any, info *grpc.UnaryServerInfo, handler grpc.UnaryHandler) (any, error) {
		h := handler
		for i := len(ints) - 1; i >= 0; i-- {
			in, next := ints[i], h
			h = func(ctx context.Context, req any) (any, error) { return in(ctx, req, info, next) }
		}
		return h(ctx, req)
	}
}

// ---- streams ---------------------------------------------------------------------------------

type msgQueue struct {
	q      [][]byte
	closed bool // sender half-closed
}

type simStream struct {
	l         *grpcLink
	mu        simrt.Mutex
	cv        *simrt.Cond
	c2s, s2c  msgQueue
	done      bool  // handler returned
	st        error // handler's status (nil = OK)
	broken    bool  // link cut
	cancelled bool  // client context cancelled
	cctx      context.Context
	sctx      context.Context
	scancel   context.CancelFunc
	window    int
}

// breakLink may be called while the caller holds s.mu (a SendMsg that triggers the cut): it does
// not lock. Exactly one managed goroutine runs at a time, so the plain store is safe here.
func (s *simStream) breakLink() {
	s.broken = true
	s.cv.Broadcast()
	s.scancel()
}

func (l *grpcLink) NewStream(ctx context.Context, _ *grpc.StreamDesc, method string, _ ...grpc.CallOption) (grpc.ClientStream, error) {
	simrt.Yield("grpc.newstream")
	l.Stats.Streams++
	if err := ctx.Err(); err != nil {
		return nil, status.FromContextError(err).Err()
	}
	if l.down {
		return nil, errUnavailable
	}
	svc, m := split(method)
	desc := l.descs[svc]
	if desc == nil {
		return nil, status.Error(codes.Unimplemented, "unknown service "+svc)
	}
	var sd *grpc.StreamDesc
	for i := range desc.Streams {
		if desc.Streams[i].StreamName == m {
			sd = &desc.Streams[i]
		}
	}
	if sd == nil {
		return nil, status.Error(codes.Unimplemented, "unknown method "+m)
	}
	s := &simStream{l: l, cctx: ctx, window: 32}
	s.cv = simrt.NewCond(&s.mu)
	s.sctx, s.scancel = serverCtx(ctx)
	l.streams = append(l.streams, s)
	// the client's context ends the stream on both sides
	sctx.AfterFunc(ctx, func() {
		s.mu.Lock()
		s.cancelled = true
		s.mu.Unlock()
		s.cv.Broadcast()
		s.scancel()
	})
	info := &grpc.StreamServerInfo{FullMethod: method, IsClientStream: sd.ClientStreams, IsServerStream: sd.ServerStreams}
	impl := l.impls[svc]
	ss := &serverSide{s: s}
	simrt.Go(func() {
		h := sd.Handler
		for i := len(l.streamI) - 1; i >= 0; i-- {
			in, next := l.streamI[i], h
			h = func(srv any, st grpc.ServerStream) error { return in(srv, st, info, next) }
		}
		err := h(impl, ss)
		s.mu.Lock()
		s.done = true
		if err != nil {
			s.st = wireErr(err)
		}
		s.mu.Unlock()
		s.cv.Broadcast()
		s.scancel()
	})
	return &clientSide{s: s}, nil
}

type clientSide struct{ s *simStream }

func (c *clientSide) Header() (metadata.MD, error) { return nil, nil }
func (c *clientSide) Trailer() metadata.MD         { return nil }
func (c *clientSide) Context() context.Context     { return c.s.cctx }

func (c *clientSide) CloseSend() error {
	s := c.s
	s.mu.Lock()
	s.c2s.closed = true
	s.mu.Unlock()
	s.cv.Broadcast()
	return nil
}

func (c *clientSide) SendMsg(m any) error {
	s := c.s
	b, err := proto.Marshal(m.(proto.Message))
	if err != nil {
		return status.Error(codes.Internal, err.Error())
	}
	s.mu.Lock()
	defer s.mu.Unlock()
	for {
		if s.done || s.broken || s.cancelled {
			return io.EOF // the status is delivered by RecvMsg
		}
		if len(s.c2s.q) < s.window {
			break
		}
		s.cv.Wait() // flow control
	}
	if !s.l.pass("c2s") {
		// pass() has already broken every stream including this one (without the lock held by us:
		// breakLink locks; so mark here and let the caller see EOF)
		return io.EOF
	}
	s.c2s.q = append(s.c2s.q, b)
	s.cv.Broadcast()
	return nil
}

func (c *clientSide) RecvMsg(m any) error {
	s := c.s
	s.mu.Lock()
	defer s.mu.Unlock()
	for {
		if len(s.s2c.q) > 0 {
			b := s.s2c.q[0]
			s.s2c.q = s.s2c.q[1:]
			s.cv.Broadcast()
			return proto.Unmarshal(b, m.(proto.Message))
		}
		if s.broken {
			return errUnavailable
		}
		if s.cancelled {
			return status.FromContextError(s.cctx.Err()).Err()
		}
		if s.done {
			if s.st != nil {
				return s.st
			}
			return io.EOF
		}
		s.cv.Wait()
	}
}

type serverSide struct{ s *simStream }

func (ss *serverSide) SetHeader(metadata.MD) error  { return nil }
func (ss *serverSide) SendHeader(metadata.MD) error { return nil }
func (ss *serverSide) SetTrailer(metadata.MD)       {}
func (ss *serverSide) Context() context.Context     { return ss.s.sctx }

func (ss *serverSide) SendMsg(m any) error {
	s := ss.s
	b, err := proto.Marshal(m.(proto.Message))
	if err != nil {
		return status.Error(codes.Internal, err.Error())
	}
	s.mu.Lock()
	defer s.mu.Unlock()
	for {
		if s.broken || s.cancelled {
			return status.Error(codes.Canceled, "context canceled")
		}
		if len(s.s2c.q) < s.window {
			break
		}
		s.cv.Wait()
	}
	if !s.l.pass("s2c") {
		return status.Error(codes.Canceled, "context canceled")
	}
	s.s2c.q = append(s.s2c.q, b)
	s.cv.Broadcast()
	return nil
}

func (ss *serverSide) RecvMsg(m any) error {
	s := ss.s
	s.mu.Lock()
	defer s.mu.Unlock()
	for {
		if s.broken || s.cancelled {
			return status.Error(codes.Canceled, "context canceled")
		}
		if len(s.c2s.q) > 0 {
			b := s.c2s.q[0]
			s.c2s.q = s.c2s.q[1:]
			s.cv.Broadcast()
			return proto.Unmarshal(b, m.(proto.Message))
		}
		if s.c2s.closed {
			return io.EOF
		}
		s.cv.Wait()
	}
}

// ---- wiring -----------------------------------------------------------------------------------

type linkCtl struct{ l *grpcLink }

func (c linkCtl) CutAfter(dir string, n int, fired *bool) { c.l.CutAfter(dir, n, fired) }
func (c linkCtl) Heal()                                   { c.l.Heal() }

func init() {
	newSimGrpcImpl = func(w *World) (fs_db.DB, *simLink) {
		l := newGrpcLink()
		store.RegisterStoreV1Server(l, w.C.StoreService())
		w.Link = l
		return externaldb.VerifNewWithConn(l), &simLink{impl: linkCtl{l}}
	}
	newSimGrpcClient = func(w *World) fs_db.DB {
		db, _ := newSimGrpcImpl(w)
		return db
	}
}

var _ = errors.New
var _ = fmt.Sprintf
