package harness

import (
	"bytes"
	"encoding/json"
	"fmt"
	"hash/fnv"
	"os"
	"os/exec"
	"path/filepath"
	"sort"
	"strconv"
	"strings"
	"time"

	"github.com/anishathalye/porcupine"
	"github.com/google/uuid"

	"github.com/glebziz/fs_db"
	"github.com/glebziz/fs_db/internal/model/sequence"
	"github.com/glebziz/fs_db/internal/verif/refmodel"
	"github.com/glebziz/fs_db/internal/verif/simbadger"
	"github.com/glebziz/fs_db/internal/verif/simos"
	"github.com/glebziz/fs_db/internal/verif/simrt"
)

// C04 — crashsim. A workload is executed by a child OS process under the deterministic
// scheduler; the child kills itself (SIGKILL: no deferred function, no flush, no close) just
// before its n-th persistent mutation - for every n of the workload, optionally after writing
// only a prefix of that write. A second process recovers the directory and compares what it
// reads with the operations the child had acknowledged. Crashes inside recovery are enumerated
// the same way.

type CrashCase struct {
	Conc       *ConcCase `json:"conc,omitempty"` // two concurrent clients instead of one sequential workload
	Seq        SeqCase   `json:"seq"`
	Torn       string    `json:"torn"`                   // none | even | all : which file-write crash points also get a torn variant
	Level2     int       `json:"level2"`                 // how many first-level crash points also get every second-level (recovery) crash point
	OnlyLastOp bool      `json:"only_last_op,omitempty"` // very long workloads: crash points of the tail only
	TailPoints int       `json:"tail_points,omitempty"`
	// two-client mode: before the crash enumeration, this many schedules (seeds derived from the
	// case's) are executed without a crash and the one in which most same-key writes of different
	// clients overlapped in call/return time is kept: crash points are spent on an interleaving
	// that has something to order
	Screen int `json:"screen,omitempty"`
	// Oversize: the workload commits more metadata than the metadata store accepts in one
	// transaction; such a commit may fail (class other) and must then fail as a whole
	Oversize bool `json:"oversize,omitempty"`
}

type propC04 struct{}

func init() { Register(propC04{}) }

func (propC04) ID() string    { return "C04" }
func (propC04) Level() string { return "fault_enumeration" }
func (propC04) Rule() string {
	return "cases: seeded workloads of 3-12 operations (autocommit Set/SetReader/Create/Delete, transactions writing 1-3 keys with Commit or Rollback, collector runs and background windows) executed by a child process under the seq-bg scheduler; evaluations = crash runs: for every persistent-mutation point n of the workload (file create/write/close/remove, mkdir, Badger open/update/close) a fresh child re-executes the same seed and SIGKILLs itself before mutation n (file writes additionally torn: a prefix of the chunk reaches the disk), then a verifier process opens the directory twice and compares keys and contents with the model of the acknowledged operations extended by nothing or by the one in-flight operation applied atomically; for sampled first-level points every crash point inside recovery (load + cleanup + collection) is enumerated as well and verified by a third process; distinct = hash(workload, crash point); non-trivial = the kill landed inside an operation (after its invocation was logged and before its acknowledgement)"
}
func (propC04) Assumptions() []string {
	return []string{
		"crash model = process death: everything handed to a completed system call survives (page cache, Badger's mmap); power loss is out of scope (fs_db never fsyncs content files)",
		"Badger's own crash recovery is trusted",
		"the child is deterministic under the simulator, so mutation n of the killed run is mutation n of the dry run (checked: the dry run's mutation log prefix equals the killed run's)",
	}
}
func (propC04) RealStub() map[string]string {
	m := seqProp{}.RealStub()
	m["process death"] = "real SIGKILL of a real child process; recovery by a fresh process"
	return m
}
func (propC04) Runs(tier string) int {
	if tier == "thorough" {
		return 1500
	}
	return 64
}

func (propC04) Gen(r *simrt.Rand, idx int, tier string) any {
	if idx%4 == 3 {
		return genCrashConc(r, idx, tier)
	}
	if idx%16 == 6 {
		return genCrashBigCommit(r)
	}
	if idx%16 == 14 {
		return genCrashOversizeCommit(r)
	}
	p := seqProfile{prop: "C04", steps: [2]int{3, 12}, keys: [2]int{2, 3}, maxTx: 2, txWeight: 60, ctlWeight: 15, readback: "none", big: idx%3 == 0, overlap: r.Intn(2) == 0}
	c := genSeqCase(r, p)
	// reads contribute nothing to a crash test: turn them into writes
	id := uint64(1000)
	for i := range c.Ops {
		switch c.Ops[i].K {
		case "get", "getr", "keys":
			if c.Ops[i].Key == "never-written" || c.Ops[i].Key == "" {
				c.Ops[i].Key = c.Keys[0]
			}
			id++
			c.Ops[i] = Op{K: "set", Tx: c.Ops[i].Tx, Key: c.Ops[i].Key, ID: id, Size: 9 + r.Intn(3000)}
			if c.Ops[i].Key == "" {
				c.Ops[i].Key = c.Keys[0]
			}
		case "set", "setr", "create":
			if c.Ops[i].Key == "" {
				c.Ops[i].Key = c.Keys[0]
			}
			if c.Ops[i].Size < 9 {
				c.Ops[i].Size += 9 // unique contents
				if c.Ops[i].K == "create" {
					c.Ops[i].Writes = []int{c.Ops[i].Size}
				}
			}
			if c.Ops[i].K == "setr" && c.Ops[i].Shape == "byte" && c.Ops[i].Size > 300 {
				c.Ops[i].Shape = "short" // every Write is a crash point: keep their number sensible
			}
			if c.Ops[i].Size > 70000 {
				c.Ops[i].Size = 40000 + c.Ops[i].Size%30000
				if c.Ops[i].K == "create" {
					c.Ops[i].Writes = []int{c.Ops[i].Size / 2, c.Ops[i].Size - c.Ops[i].Size/2}
				}
			}
		}
	}
	if r.Intn(10) < 7 {
		// a multi-key commit (the atomicity statement needs one): begin, 2-3 keys, commit
		tx := 90
		block := []Op{{K: "begin", Tx: tx, Level: r.Intn(4)}}
		for _, ki := range r.Perm(len(c.Keys))[:min(len(c.Keys), 2+r.Intn(2))] {
			id++
			if r.Intn(5) == 0 {
				block = append(block, Op{K: "del", Tx: tx, Key: c.Keys[ki]})
			} else {
				block = append(block, Op{K: "set", Tx: tx, Key: c.Keys[ki], ID: id, Size: 9 + r.Intn(2000)})
			}
		}
		block = append(block, Op{K: "commit", Tx: tx})
		at := r.Intn(len(c.Ops) + 1)
		// keep it outside other transactions' begin..commit spans? not needed: slots are independent
		c.Ops = append(c.Ops[:at], append(block, c.Ops[at:]...)...)
	}
	c.World.Roots = c.World.Roots[:1+r.Intn(min(2, len(c.World.Roots)))]
	for i := range c.Ops {
		// every fourth Commit/Rollback is called with a context that has already ended: whatever
		// the call answers, the state after a crash must agree with that answer
		if (c.Ops[i].K == "commit" || c.Ops[i].K == "rollback") && r.Intn(4) == 0 {
			c.Ops[i].Ctx = "dead"
		}
	}
	cc := CrashCase{Seq: c, Torn: "even", Level2: 1}
	if tier == "thorough" {
		cc.Torn = "all"
		cc.Level2 = 4
	}
	return cc
}

func (propC04) Decode(b json.RawMessage) (any, error) {
	var c CrashCase
	err := json.Unmarshal(b, &c)
	return c, err
}

func (propC04) Shrink(x any) []any {
	c := x.(CrashCase)
	var out []any
	for _, s := range (seqProp{}).Shrink(c.Seq) {
		d := c
		d.Seq = s.(SeqCase)
		out = append(out, d)
	}
	return out
}

// ---- child side --------------------------------------------------------------------------------

type crashLog struct{ f *os.File }

func (l *crashLog) line(s string) {
	if l.f != nil {
		l.f.Write([]byte(s + "\n")) // one unbuffered write(2): survives SIGKILL
	}
}

// CrashChild executes a workload in this process (which may kill itself at mutation `kill`).
// mode: "work" = run the operations; "recover" = open, drain, collect, drain, close.
func CrashChild(caseFile, dir, logPath, mode string, kill uint64, torn bool) int {
	b, err := os.ReadFile(caseFile)
	if err != nil {
		fmt.Fprintln(os.Stderr, err)
		return 2
	}
	var c CrashCase
	if err := json.Unmarshal(b, &c); err != nil {
		fmt.Fprintln(os.Stderr, err)
		return 2
	}
	lf, err := os.OpenFile(logPath, os.O_CREATE|os.O_WRONLY|os.O_APPEND, 0o644)
	if err != nil {
		fmt.Fprintln(os.Stderr, err)
		return 2
	}
	log := &crashLog{f: lf}
	simrt.SetMutationLog(func(n uint64, kind, path string) {
		log.line(fmt.Sprintf("mut %d %s", n, kind))
	})
	if c.Conc != nil && mode == "work" {
		return crashChildConc(c, dir, log, kill, torn)
	}
	cfg := c.Seq.Sched.config(nil)
	cfg.Strategy = "seqbg"
	status := 0
	res := simrt.Run(cfg, func() {
		w := worldAt(dir, c.Seq.World, c.Seq.Sched.Seed, mode == "work")
		simrt.SetKill(kill, torn)
		if err := w.Open(); err != nil {
			log.line("openerr " + strconv.Quote(err.Error()))
			status = 3
			return
		}
		if mode == "recover" {
			w.Drain()
			w.GCDirect()
			w.Drain()
			w.Close()
			log.line(fmt.Sprintf("recovered %d", simrt.Mutations()))
			return
		}
		a := &actors{db: w.DB, txs: map[int]fs_db.Tx{}}
		for i, o := range c.Seq.Ops {
			switch o.K {
			case "gc":
				w.GCDirect()
			case "gctimer":
				w.GCTimer()
			case "bg":
				simrt.Background(o.N)
			case "drain":
				w.Drain()
			case "reopen":
			default:
				log.line(fmt.Sprintf("invoke %d", i))
				r := a.apply(w.Ctx, o)
				log.line(fmt.Sprintf("ack %d %s", i, strconv.Quote(r.Class)))
				// the instant right after an acknowledgement is a crash point of its own: whatever
				// the call handed to somebody else to finish must already be safe
				simrt.Mutation("ack", "")
			}
		}
		// the process ends without Close half of the time (a clean exit is a crash point too)
		if c.Seq.Sched.Seed%2 == 0 {
			w.Close()
		} else {
			simrt.Stop()
		}
	})
	if res.Status != simrt.StatusOK {
		log.line("simstatus " + res.Status.String() + " " + strconv.Quote(res.Detail))
		return 4
	}
	log.line(fmt.Sprintf("done %d", simrt.Mutations()))
	return status
}

// worldAt builds a world on a fixed directory (fresh = wipe it first).
func worldAt(dir string, spec WorldSpec, seed uint64, fresh bool) *World {
	w := &World{Spec: spec, Ctx: backgroundCtx(), Dir: dir, DBDir: filepath.Join(dir, "db")}
	if fresh {
		os.RemoveAll(dir)
	}
	os.MkdirAll(w.DBDir, 0o755)
	for i := range spec.Roots {
		w.Roots = append(w.Roots, filepath.Join(dir, fmt.Sprintf("root%d", i)))
	}
	w.Disk = &simos.Disk{}
	simos.Install(w.Disk)
	w.Badger = &simbadger.Faults{FailUpdateAt: map[uint64]bool{}, FailCommitAt: map[uint64]bool{}}
	simbadger.Install(w.Badger)
	// identifiers must not repeat those of an earlier process on the same directory, and must be a
	// function of the seed alone: a counter file next to the database counts the incarnations
	inc := uint64(0)
	incFile := filepath.Join(dir, "incarnation")
	if b, err := os.ReadFile(incFile); err == nil && !fresh {
		inc, _ = strconv.ParseUint(strings.TrimSpace(string(b)), 10, 64)
	}
	inc++
	os.WriteFile(incFile, []byte(strconv.FormatUint(inc, 10)), 0o644)
	simrt.SeedIDs(seed ^ simrt.Mix(inc))
	if fresh {
		simrt.SeedIDs(seed)
	}
	uuid.SetRand(simrt.IDRand())
	sequence.VerifReset(spec.SeqBase)
	simbadger.UseDefaults = spec.BadgerDefaults
	simrt.ResetMutations()
	return w
}

// ---- verifier side ---------------------------------------------------------------------------------

type crashState struct {
	Keys    []string          `json:"keys"`
	Vals    map[string]uint64 `json:"vals"` // key -> write id of the complete content
	Bad     map[string]string `json:"bad"`  // key -> what is wrong with its content
	OpenErr string            `json:"open_err,omitempty"`
}

type verifyOut struct {
	First, Second crashState
	Acked         []int          `json:"acked"`
	InFlight      int            `json:"inflight"`          // op index or -1
	Classes       map[int]string `json:"classes,omitempty"` // acknowledged op -> error class it returned
	Viol          *Violation     `json:"viol,omitempty"`
	Mutations     uint64         `json:"mutations"`
	// Trusted: the trusted base gave up, not fs_db: Badger refuses to open its own directory after
	// a kill that landed inside Badger's creation of a memtable file (a zero-length .mem file is an
	// error to its Open). Such a crash point is counted and skipped, neither judged nor an
	// infrastructure failure
	Trusted string `json:"trusted,omitempty"`
	// Refused: how many times Badger refused the directory before the database opened
	Refused int `json:"refused,omitempty"`
}

func parseCrashLog(path string) (acked []int, classes map[int]string, inflight int, muts []string, done bool) {
	classes = map[int]string{}
	inflight = -1
	b, _ := os.ReadFile(path)
	for _, l := range strings.Split(string(b), "\n") {
		f := strings.Fields(l)
		if len(f) < 2 {
			continue
		}
		switch f[0] {
		case "invoke":
			inflight, _ = strconv.Atoi(f[1])
		case "ack":
			i, _ := strconv.Atoi(f[1])
			acked = append(acked, i)
			if len(f) > 2 {
				classes[i], _ = strconv.Unquote(f[2])
			}
			inflight = -1
		case "mut":
			muts = append(muts, strings.Join(f[1:], " "))
		case "done":
			done = true
		}
	}
	return
}

func readState(w *World, written map[uint64]Op) (st crashState) {
	st = crashState{Vals: map[string]uint64{}, Bad: map[string]string{}}
	defer func() {
		// inline.Open panics (lo.Must) when Badger cannot be opened
		if r := recover(); r != nil {
			st.OpenErr = fmt.Sprintf("panic: %v", r)
		}
	}()
	if err := w.Open(); err != nil {
		st.OpenErr = err.Error()
		return st
	}
	defer w.Close()
	keys, err := w.DB.GetKeys(w.Ctx)
	if err != nil {
		st.OpenErr = "GetKeys: " + err.Error()
		return st
	}
	st.Keys = keys
	idx := &valueIndex{}
	var ids []uint64
	for id := range written {
		ids = append(ids, id)
	}
	sort.Slice(ids, func(i, j int) bool { return ids[i] < ids[j] })
	for _, id := range ids {
		idx.add(refmodel.Val{ID: id, Size: written[id].Size})
	}
	for _, k := range keys {
		b, err := w.DB.Get(w.Ctx, k)
		if err != nil {
			st.Bad[k] = "GetKeys lists it but Get fails: " + err.Error()
			continue
		}
		found := false
		for _, id := range ids {
			o := written[id]
			if o.Key == k && len(b) == o.Size && bytes.Equal(b, payload(o.ID, o.Size)) {
				st.Vals[k] = id
				found = true
				break
			}
		}
		if !found {
			st.Bad[k] = idx.describe(b)
		}
	}
	return st
}

// CrashVerify recovers a crashed directory (no simulator: a plain process) and judges it.
func CrashVerify(caseFile, dir, logPath string) int {
	b, err := os.ReadFile(caseFile)
	if err != nil {
		return 2
	}
	var c CrashCase
	if json.Unmarshal(b, &c) != nil {
		return 2
	}
	acked, classes, inflight, _, _ := parseCrashLog(logPath)
	out := verifyOut{Acked: acked, InFlight: inflight, Classes: classes}
	written := map[uint64]Op{}
	for _, o := range c.Seq.Ops {
		if o.ID != 0 {
			written[o.ID] = o
		}
	}
	if c.Conc != nil {
		c.Seq.World, c.Seq.Sched = c.Conc.World, c.Conc.Sched
		for _, ops := range append([][]Op{c.Conc.Init, c.Conc.Tail}, c.Conc.Clients...) {
			for _, o := range ops {
				if o.ID != 0 {
					written[o.ID] = o
				}
			}
		}
	}
	// the verifier is a plain process (real scheduling): it is an observer only, so the workload's
	// simulated-time knobs (a GC period of microseconds) must not turn into real-time background
	// churn racing with its reads
	c.Seq.World.GCPeriodNs = int64(time.Hour)
	c.Seq.World.SendDurNs = int64(time.Millisecond)
	// Badger refuses a directory in which a kill left a memtable file created but not yet sized
	// (its failed Open sizes the file, the next Open succeeds): the caller of fs_db opens again; what
	// is judged is the state once the database opens
	refused := func(e string) bool {
		return strings.Contains(e, "badger open:") && strings.Contains(e, "while opening memtables")
	}
	w := worldAt(dir, c.Seq.World, c.Seq.Sched.Seed+1, false)
	out.First = readState(w, written)
	for try := 0; try < 2 && refused(out.First.OpenErr); try++ {
		out.Refused++
		w = worldAt(dir, c.Seq.World, c.Seq.Sched.Seed+1, false)
		out.First = readState(w, written)
	}
	w2 := worldAt(dir, c.Seq.World, c.Seq.Sched.Seed+2, false)
	out.Second = readState(w2, written)
	if c.Conc != nil {
		out.Viol = judgeCrashConc(c, logPath, &out)
	} else {
		out.Viol = judgeCrash(c, &out)
	}
	for _, e := range []string{out.First.OpenErr, out.Second.OpenErr} {
		if refused(e) {
			out.Trusted, out.Viol = e, nil
		}
	}
	raw, _ := json.Marshal(out)
	os.Stdout.Write(raw)
	return 0
}

func expected(m *refmodel.Model) map[string]uint64 {
	e := map[string]uint64{}
	for _, k := range m.CommittedKeys() {
		v, _ := m.Committed(k)
		e[k] = v.ID
	}
	return e
}

func sameState(a, b map[string]uint64) bool {
	if len(a) != len(b) {
		return false
	}
	for k, v := range a {
		if b[k] != v {
			return false
		}
	}
	return true
}

func judgeCrash(c CrashCase, v *verifyOut) *Violation {
	mk := func(class, sig, detail string) *Violation {
		return &Violation{Class: class, Signature: "C04|" + class + "|" + sig, Detail: detail}
	}
	if v.First.OpenErr != "" {
		return mk("reopen-differs", "open-failed", "the database does not open after the crash: "+v.First.OpenErr)
	}
	for k, why := range v.First.Bad {
		return mk("partial-or-mixed-content", "after-crash", fmt.Sprintf("after the crash key %q: %s", k, why))
	}
	if v.Second.OpenErr != "" {
		return mk("reopen-differs", "second-open-failed", "the second open after the crash fails: "+v.Second.OpenErr)
	}
	if !sameState(v.First.Vals, v.Second.Vals) || len(v.Second.Bad) > 0 {
		return mk("reopen-differs", "second-open", fmt.Sprintf("first open after the crash: %v; second open: %v %v", v.First.Vals, v.Second.Vals, v.Second.Bad))
	}
	// model of the acknowledged operations
	m := refmodel.New()
	owner := map[uint64]int{}
	apply := func(m *refmodel.Model, o Op) {
		switch o.K {
		case "begin":
			m.Begin(o.tx(), refmodel.Level(o.Level))
		case "commit":
			m.Commit(o.tx())
		case "rollback":
			m.Rollback(o.tx())
		case "set", "setr", "create":
			m.Set(o.tx(), o.Key, refmodel.Val{ID: o.ID, Size: o.Size})
		case "del":
			m.Delete(o.tx(), o.Key)
		}
	}
	for _, o := range c.Seq.Ops {
		if o.ID != 0 {
			owner[o.ID] = o.Tx
		}
	}
	for _, i := range v.Acked {
		if o := c.Seq.Ops[i]; o.K == "commit" && v.Classes[i] == "other" {
			// the commit was refused as a whole for a reason of the storage layer (it exceeds what
			// the metadata store takes in one transaction): nothing of it may be visible, the
			// transaction is over
			m.CommitFailed(o.tx())
			continue
		}
		if cl := v.Classes[i]; cl == "other" || cl == "ErrUnknown" || cl == "ErrNoFreeSpace" {
			continue // acknowledged as failed for a reason of its own: it must have had no effect
		}
		apply(m, c.Seq.Ops[i])
	}
	e0 := expected(m)
	if sameState(v.First.Vals, e0) {
		return nil
	}
	var e1 map[string]uint64
	if o := v.InFlight; o >= 0 && !(c.Seq.Ops[o].K == "setr" && c.Seq.Ops[o].Shape == "failing") {
		// (a write whose source fails has no atomically-applied alternative: it never counts)
		m1 := m.Clone()
		apply(m1, c.Seq.Ops[v.InFlight])
		e1 = expected(m1)
		if sameState(v.First.Vals, e1) {
			return nil
		}
	}
	// classify
	got := v.First.Vals
	desc := fmt.Sprintf("recovered state %v; acknowledged operations give %v", got, e0)
	if e1 != nil {
		desc += fmt.Sprintf(", with the in-flight operation (%s) applied %v", c.Seq.Ops[v.InFlight], e1)
	}
	committed := map[int]bool{}
	for _, i := range v.Acked {
		if c.Seq.Ops[i].K == "commit" {
			committed[c.Seq.Ops[i].Tx] = true
		}
	}
	if v.InFlight >= 0 && c.Seq.Ops[v.InFlight].K == "commit" {
		committed[c.Seq.Ops[v.InFlight].Tx] = true
	}
	for k, id := range got {
		if tx := owner[id]; tx != 0 && !committed[tx] {
			return mk("uncommitted-visible-after-crash", "tx-write", fmt.Sprintf("key %q holds write #%d of transaction %d, which never committed; %s", k, id, tx-1, desc))
		}
	}
	if e1 != nil && c.Seq.Ops[v.InFlight].K == "commit" {
		// partly e0, partly e1?
		mixed := true
		for k := range unionKeys(got, e0, e1) {
			if got[k] != e0[k] && got[k] != e1[k] {
				mixed = false
			}
		}
		if mixed {
			return mk("not-atomic-after-crash", "commit", "the in-flight Commit is visible on some of its keys only; "+desc)
		}
	}
	return mk("acked-lost-after-crash", "state", desc)
}

func unionKeys(ms ...map[string]uint64) map[string]bool {
	u := map[string]bool{}
	for _, m := range ms {
		for k := range m {
			u[k] = true
		}
	}
	return u
}

// ---- orchestration (worker side) -------------------------------------------------------------------

var lastStderr string

func runSelf(args ...string) ([]byte, int) {
	self, _ := os.Executable()
	cmd := exec.Command(self, args...)
	cmd.Env = os.Environ()
	var stderr bytes.Buffer
	cmd.Stderr = &stderr
	out, err := cmd.Output()
	code := 0
	lastStderr = stderr.String()
	if len(lastStderr) > 1500 {
		lastStderr = lastStderr[:1500]
	}
	if err != nil {
		if ee, ok := err.(*exec.ExitError); ok {
			code = ee.ExitCode() // -1 when killed by a signal
		} else {
			code = 2
		}
	}
	return out, code
}

func copyDir(src, dst string) error {
	os.RemoveAll(dst)
	return exec.Command("cp", "-a", src, dst).Run()
}

func (propC04) Exec(x any, _ []int32) RunOut {
	c := x.(CrashCase)
	screened := 0
	if c.Conc != nil && c.Screen > 0 {
		cc := *c.Conc
		c.Conc = &cc
		best, bestScore := cc.Sched.Seed, -1
		for i := 0; i < c.Screen; i++ {
			t := cc
			t.Sched.Seed = cc.Sched.Seed + uint64(i)*0x9E3779B97F4A7C15
			o, cr := concExec(t, nil)
			if o.Infra != "" || o.Violation != nil || o.Inconclusive != "" || cr == nil {
				continue // the crash-free run itself is judged below, on the schedule that is kept
			}
			screened++
			if sc := sameKeyWriteOverlaps(cr); sc > bestScore {
				best, bestScore = t.Sched.Seed, sc
			}
		}
		cc.Sched.Seed = best
		c.Screen = 0
	}
	base := filepath.Join(worldBase(), fmt.Sprintf("crash-%d", os.Getpid()))
	os.RemoveAll(base)
	os.MkdirAll(base, 0o755)
	defer os.RemoveAll(base)
	caseFile := filepath.Join(base, "case.json")
	b, _ := json.Marshal(c)
	os.WriteFile(caseFile, b, 0o644)
	out := RunOut{Probes: map[string]uint64{}, Faults: map[string]uint64{}}
	if screened > 0 {
		out.Probes["schedules-screened-before-crash-enumeration"] += uint64(screened)
	}
	h := fnv.New64a()
	h.Write(b)
	out.CaseHash = h.Sum64()
	out.Sample, _ = json.Marshal(map[string]any{"keys": c.Seq.Keys, "ops": opsSummary(c.Seq.Ops), "torn": c.Torn})
	if c.Conc != nil {
		var cl [][]string
		for _, ops := range c.Conc.Clients {
			cl = append(cl, opsSummary(ops))
		}
		out.Sample, _ = json.Marshal(map[string]any{"mode": "two concurrent clients", "keys": c.Conc.Keys, "init": opsSummary(c.Conc.Init), "clients": cl, "torn": c.Torn})
	}

	dir := filepath.Join(base, "d")
	logp := filepath.Join(base, "log")
	verify := func(what string) (*verifyOut, string) {
		raw, code := runSelf("crash-verify", "-case", caseFile, "-dir", dir, "-log", logp)
		var v verifyOut
		if code != 0 || json.Unmarshal(raw, &v) != nil {
			return nil, fmt.Sprintf("verifier failed (%s, exit %d): %s", what, code, lastStderr)
		}
		return &v, ""
	}
	// dry run: counts the mutation points and must verify cleanly itself
	os.Remove(logp)
	if _, code := runSelf("crash-child", "-case", caseFile, "-dir", dir, "-log", logp, "-mode", "work"); code != 0 {
		out.Infra = fmt.Sprintf("dry run of the workload failed (exit %d): %s", code, tailFile(logp))
		return out
	}
	_, dryClasses, _, dryMuts, done := parseCrashLog(logp)
	if c.Oversize {
		for i, o := range c.Seq.Ops {
			if o.K == "commit" && dryClasses[i] == "other" {
				out.Probes["oversize-commit-refused-as-a-whole"]++
			} else if o.K == "commit" {
				out.Probes["oversize-commit-accepted"]++
			}
		}
	}
	if !done {
		out.Infra = "dry run did not finish: " + tailFile(logp)
		return out
	}
	M := len(dryMuts)
	v, infra := verify("dry run")
	if infra != "" {
		out.Infra = infra
		return out
	}
	if v.Viol != nil {
		v.Viol.Signature += ",no-crash"
		v.Viol.Detail = "without any crash: " + v.Viol.Detail
		out.Violation = v.Viol
		return out
	}
	level2Left := c.Level2
	first := 1
	if c.OnlyLastOp {
		// very long workloads: only the crash points of the last operation (the big commit) and a
		// handful before it
		first = M - c.TailPoints
		if first < 1 {
			first = 1
		}
	}
	for n := first; n <= M+1; n++ {
		isWrite := n <= M && strings.HasSuffix(dryMuts[n-1], " write")
		variants := []bool{false}
		if isWrite && (c.Torn == "all" || (c.Torn == "even" && n%2 == 0)) {
			variants = append(variants, true)
		}
		for _, torn := range variants {
			os.Remove(logp)
			args := []string{"crash-child", "-case", caseFile, "-dir", dir, "-log", logp, "-mode", "work", "-kill", strconv.Itoa(n)}
			if torn {
				args = append(args, "-torn")
			}
			_, code := runSelf(args...)
			_, _, inflight, muts, finished := parseCrashLog(logp)
			if n <= M && (code != -1 || finished) {
				out.Infra = fmt.Sprintf("crash point %d/%d: the child was not killed (exit %d): %s", n, M, code, tailFile(logp))
				return out
			}
			// determinism: the killed run's mutation sequence is a prefix of the dry run's
			for i := range muts {
				if i < len(dryMuts) && muts[i] != dryMuts[i] {
					out.Infra = fmt.Sprintf("crash point %d: mutation %d differs from the dry run (%q vs %q)", n, i+1, muts[i], dryMuts[i])
					return out
				}
			}
			out.Extra++
			if torn {
				out.Faults["kill-with-torn-write"]++
			} else {
				out.Faults["kill-before-mutation"]++
			}
			if n <= M {
				out.Faults["kill@"+strings.Fields(dryMuts[n-1])[1]]++
			}
			if c.Conc != nil {
				inflight = -1
				if concInFlight(logp) > 0 {
					inflight = 0
				}
			}
			if inflight >= 0 {
				tb := uint64(0)
				if torn {
					tb = 1
				}
				out.InnerNT = append(out.InnerNT, simrt.Mix(out.CaseHash^uint64(n)<<1^tb))
				out.NonTrivial = true
				out.Probes["kill-inside-operation"]++
				if c.Conc == nil && c.Seq.Ops[inflight].K == "commit" {
					out.Probes["kill-inside-commit"]++
				}
				if c.Conc != nil && concInFlight(logp) > 1 {
					out.Probes["kill-with-two-operations-in-flight"]++
				}
			}
			// second level: crash inside recovery
			if c.Conc == nil && level2Left > 0 && n <= M && (n*7+int(c.Seq.Sched.Seed%5))%5 == 0 {
				level2Left--
				if viol, infra := crashInRecovery(c, base, caseFile, dir, logp, &out); infra != "" {
					out.Infra = infra
					return out
				} else if viol != nil {
					viol.Detail = fmt.Sprintf("crash point %d of %d (torn=%v), then %s", n, M, torn, viol.Detail)
					out.Violation = viol
					return out
				}
			}
			// the same kill followed by a second death inside Badger's Open of the recovery, between
			// the creation and the sizing of its next memtable file (the one place where a kill makes
			// Badger refuse its directory once); the state that leaves is written directly
			if c.Conc == nil && (n+int(c.Seq.Sched.Seed%3))%3 == 0 {
				if viol, infra := killInMemtableCreation(base, dir, verify, &out); infra != "" {
					out.Infra = infra
					return out
				} else if viol != nil {
					viol.Detail = fmt.Sprintf("crash point %d of %d (torn=%v), then %s", n, M, torn, viol.Detail)
					out.Violation = viol
					return out
				}
			}
			v, infra := verify(fmt.Sprintf("crash point %d", n))
			if infra != "" {
				out.Infra = infra
				return out
			}
			if v.Refused > 0 && v.Trusted == "" {
				out.Probes["badger-refused-its-directory-then-opened:judged"]++
			}
			if v.Trusted != "" {
				out.Probes["trusted-base:badger-refused-its-own-directory-after-a-kill"]++
				continue
			}
			if v.Viol != nil {
				what := "after the last mutation"
				if n <= M {
					what = "before mutation " + dryMuts[n-1]
				}
				v.Viol.Detail = fmt.Sprintf("crash point %d of %d (%s, torn=%v), acknowledged ops %v, in flight %d: %s", n, M, what, torn, v.Acked, v.InFlight, v.Viol.Detail)
				out.Violation = v.Viol
				return out
			}
		}
	}
	out.Probes["mutation-points"] = uint64(M)
	return out
}

// killInMemtableCreation leaves in the Badger directory of the (already crashed) directory dir
// what a kill between the creation and the sizing of Badger's next memtable file leaves (a
// zero-length NNNNN.mem with the next number; observed with real kills under load), and verifies
// the outcome: Badger refuses the directory once, then the database must open with everything
// that was acknowledged.
func killInMemtableCreation(base, dir string, verify func(string) (*verifyOut, string), out *RunOut) (*Violation, string) {
	snap := filepath.Join(base, "snap-mem")
	if err := copyDir(dir, snap); err != nil {
		return nil, "copy: " + err.Error()
	}
	defer func() {
		copyDir(snap, dir)
		os.RemoveAll(snap)
	}()
	ents, err := os.ReadDir(filepath.Join(dir, "db"))
	if err != nil {
		return nil, ""
	}
	next, have := 0, false
	for _, e := range ents {
		if strings.HasSuffix(e.Name(), ".mem") {
			if n, err := strconv.Atoi(strings.TrimSuffix(e.Name(), ".mem")); err == nil {
				have = true
				if n >= next {
					next = n + 1
				}
			}
		}
	}
	if !have {
		return nil, "" // killed before Badger had a memtable at all
	}
	if err := os.WriteFile(filepath.Join(dir, "db", fmt.Sprintf("%05d.mem", next)), nil, 0o666); err != nil {
		return nil, "memtable file: " + err.Error()
	}
	out.Extra++
	out.Faults["kill-inside-badger-memtable-creation(state written directly)"]++
	v, infra := verify("kill inside memtable creation")
	if infra != "" {
		return nil, infra
	}
	if v.Trusted != "" {
		out.Probes["trusted-base:badger-refused-its-own-directory-after-a-kill"]++
		return nil, ""
	}
	if v.Refused > 0 {
		out.Probes["badger-refused-its-directory-then-opened:judged"]++
	}
	if v.Viol != nil {
		v.Viol.Signature += ",kill-in-memtable-creation"
		v.Viol.Detail = fmt.Sprintf("a second death inside Badger's Open of the recovery (memtable %05d.mem created, not sized; Badger refused the directory %d time(s) before it opened): %s", next, v.Refused, v.Viol.Detail)
		return v.Viol, ""
	}
	return nil, ""
}

// crashInRecovery enumerates every crash point of the recovery of the (already crashed)
// directory dir and verifies each outcome.
func crashInRecovery(c CrashCase, base, caseFile, dir, logp string, out *RunOut) (*Violation, string) {
	snap := filepath.Join(base, "snap")
	if err := copyDir(dir, snap); err != nil {
		return nil, "copy: " + err.Error()
	}
	defer func() {
		copyDir(snap, dir) // the first-level verification continues on the untouched directory
		os.RemoveAll(snap)
	}()
	rlog := filepath.Join(base, "rlog")
	os.Remove(rlog)
	if _, code := runSelf("crash-child", "-case", caseFile, "-dir", dir, "-log", rlog, "-mode", "recover"); code != 0 {
		// recovery itself failed: the first-level verifier will report it
		return nil, ""
	}
	_, _, _, rm, _ := parseCrashLog(rlog)
	for m := 1; m <= len(rm); m++ {
		if err := copyDir(snap, dir); err != nil {
			return nil, "copy: " + err.Error()
		}
		os.Remove(rlog)
		_, code := runSelf("crash-child", "-case", caseFile, "-dir", dir, "-log", rlog, "-mode", "recover", "-kill", strconv.Itoa(m))
		if code != -1 {
			continue // fewer mutations this time (nothing left to clean): not a crash
		}
		out.Extra++
		out.Faults["kill-inside-recovery"]++
		raw, vcode := runSelf("crash-verify", "-case", caseFile, "-dir", dir, "-log", logp)
		var v verifyOut
		if vcode != 0 || json.Unmarshal(raw, &v) != nil {
			return nil, fmt.Sprintf("verifier failed after recovery crash %d (exit %d): %s", m, vcode, lastStderr)
		}
		if v.Trusted != "" {
			out.Probes["trusted-base:badger-refused-its-own-directory-after-a-kill"]++
			continue
		}
		if v.Viol != nil {
			v.Viol.Signature += ",crash-in-recovery"
			v.Viol.Detail = fmt.Sprintf("a second crash before mutation %d (%s) of the recovery: %s", m, rm[m-1], v.Viol.Detail)
			return v.Viol, ""
		}
	}
	return nil, ""
}

func tailFile(p string) string {
	b, _ := os.ReadFile(p)
	l := strings.Split(strings.TrimSpace(string(b)), "\n")
	if len(l) > 6 {
		l = l[len(l)-6:]
	}
	return strings.Join(l, " | ")
}

// ---- two concurrent clients -----------------------------------------------------------------------

func genCrashConc(r *simrt.Rand, idx int, tier string) CrashCase {
	c := ConcCase{Prop: "C04"}
	c.World = genConcWorld(r)
	c.World.Roots = c.World.Roots[:1]
	c.Keys = genKeys(r, 2, 2)
	id := uint64(0)
	for _, k := range c.Keys {
		if r.Intn(3) > 0 {
			id++
			c.Init = append(c.Init, Op{K: "set", Key: k, ID: id, Size: 9 + r.Intn(60)})
		}
	}
	tx := 0
	if idx%8 == 7 {
		// both clients overwrite one key, read it back and go on writing: whatever order the two
		// writes took for the readers is the order recovery has to reproduce
		hot, other := c.Keys[0], c.Keys[1]
		for ci := 0; ci < 2; ci++ {
			var ops []Op
			if r.Intn(2) == 0 {
				ops = append(ops, Op{K: "yield", N: r.Intn(30)})
			}
			id++
			ops = append(ops, Op{K: "set", Key: hot, ID: id, Size: 9 + r.Intn(300)}, Op{K: "get", Key: hot})
			for k := 0; k < 1+r.Intn(2); k++ {
				id++
				ops = append(ops, Op{K: "set", Key: other, ID: id, Size: 9 + r.Intn(300)})
			}
			if r.Intn(2) == 0 {
				ops = append(ops, Op{K: "get", Key: hot})
			}
			c.Clients = append(c.Clients, ops)
		}
	}
	for ci := 0; ci < 2 && idx%8 != 7; ci++ {
		var ops []Op
		for len(ops) < 2+r.Intn(4) {
			key := c.Keys[r.Intn(len(c.Keys))]
			switch r.Pick(6, 3, 1, 2) {
			case 0:
				id++
				ops = append(ops, Op{K: "set", Key: key, ID: id, Size: 9 + r.Intn(3000)})
			case 1:
				ops = append(ops, Op{K: "get", Key: key})
			case 2:
				ops = append(ops, Op{K: "del", Key: key})
			default:
				tx++
				ops = append(ops, Op{K: "begin", Tx: tx, Level: r.Intn(4)})
				for _, ki := range r.Perm(len(c.Keys)) {
					id++
					ops = append(ops, Op{K: "set", Tx: tx, Key: c.Keys[ki], ID: id, Size: 9 + r.Intn(200)})
				}
				ops = append(ops, Op{K: "commit", Tx: tx})
			}
		}
		c.Clients = append(c.Clients, ops)
	}
	// once both clients are done every key is read back at quiescence, and one more write follows,
	// so that there are crash points after those reads: the order the concurrent writes took for
	// the readers is on record before the process dies
	c.Final = true
	id++
	c.Tail = []Op{{K: "set", Key: "zz-tail", ID: id, Size: 9 + r.Intn(100)}}
	c.Sched = genSched(r, 500)
	c.Sched.MaxSteps = 400_000
	cc := CrashCase{Conc: &c, Torn: "even", Screen: 24}
	if tier == "thorough" {
		cc.Torn = "all"
	}
	return cc
}

// sameKeyWriteOverlaps counts the pairs of acknowledged writes (autocommit set/delete, commit) of
// different clients that overlapped in call/return time, same-key autocommit pairs counting double.
func sameKeyWriteOverlaps(cr *concRun) int {
	n := 0
	for i, a := range cr.hist {
		for _, b := range cr.hist[i+1:] {
			if a.Client == b.Client || a.Client == 0 || b.Client == 0 || !(a.Call < b.Ret && b.Call < a.Ret) {
				continue
			}
			aw := a.Op.K == "set" || a.Op.K == "del" || a.Op.K == "commit"
			bw := b.Op.K == "set" || b.Op.K == "del" || b.Op.K == "commit"
			if !aw || !bw {
				continue
			}
			n++
			if a.Op.Tx == 0 && b.Op.Tx == 0 && a.Op.Key == b.Op.Key {
				n++
			}
		}
	}
	return n
}

type concLogLine struct {
	T       string   `json:"t"` // inv | ack
	C       int      `json:"c"`
	N       int      `json:"n"` // sequence number of the operation in the child's history
	Op      Op       `json:"op"`
	Class   string   `json:"class,omitempty"`
	Val     uint64   `json:"val,omitempty"`
	Foreign string   `json:"foreign,omitempty"`
	Keys    []string `json:"keys,omitempty"`
}

func crashChildConc(c CrashCase, dir string, log *crashLog, kill uint64, torn bool) int {
	cc := *c.Conc
	cc.Dir = dir
	concKillAt, concKillTorn = kill, torn
	concOpLog = func(kind string, client, n int, ev *HEvent) {
		l := concLogLine{T: kind, C: client, N: n, Op: ev.Op}
		if kind == "ack" {
			l.Class, l.Val, l.Foreign, l.Keys = ev.Class, ev.ValID, ev.Foreign, ev.Keys
		}
		b, _ := json.Marshal(l)
		log.line("op " + string(b))
		if kind == "ack" {
			simrt.Mutation("ack", "") // the instant right after an acknowledgement is a crash point
		}
	}
	out, _ := concExec(cc, nil)
	if out.Violation != nil || out.Infra != "" || out.Inconclusive != "" {
		log.line("simstatus " + strconv.Quote(fmt.Sprintf("%v %s %s", out.Violation, out.Infra, out.Inconclusive)))
		return 4
	}
	log.line(fmt.Sprintf("done %d", simrt.Mutations()))
	return 0
}

func parseConcLog(path string) (done []HEvent, inflight []HEvent, lines int) {
	b, _ := os.ReadFile(path)
	open := map[int]HEvent{}
	for _, l := range strings.Split(string(b), "\n") {
		if !strings.HasPrefix(l, "op ") {
			continue
		}
		var cl concLogLine
		if json.Unmarshal([]byte(l[3:]), &cl) != nil {
			continue
		}
		lines++
		if cl.T == "inv" {
			open[cl.C*100000+cl.N] = HEvent{Client: cl.C, Op: cl.Op, Call: uint64(lines)}
			continue
		}
		// the key of an in-flight operation is (client, position of the invoke); acks carry the same n
		for k, e := range open {
			if e.Client == cl.C && e.Op.K == cl.Op.K && e.Op.ID == cl.Op.ID && e.Op.Key == cl.Op.Key && e.Op.Tx == cl.Op.Tx {
				e.Ret = uint64(lines)
				e.Class, e.ValID, e.Foreign, e.Keys = cl.Class, cl.Val, cl.Foreign, cl.Keys
				done = append(done, e)
				delete(open, k)
				break
			}
		}
	}
	for _, e := range open {
		inflight = append(inflight, e)
	}
	sort.Slice(inflight, func(i, j int) bool { return inflight[i].Call < inflight[j].Call })
	return
}

func concInFlight(logp string) int {
	_, in, _ := parseConcLog(logp)
	return len(in)
}

// judgeCrashConc: the history before the crash (acknowledged operations with their recorded
// results, plus any subset of the operations that were in flight, assumed successful), then the
// crash (every open transaction is gone), then the verifier's reads of every key and of GetKeys
// must have a linearization against the reference model.
func judgeCrashConc(c CrashCase, logPath string, v *verifyOut) *Violation {
	mk := func(class, sig, detail string) *Violation {
		return &Violation{Class: class, Signature: "C04|" + class + "|" + sig + ",two-clients", Detail: detail}
	}
	if v.First.OpenErr != "" {
		return mk("reopen-differs", "open-failed", "the database does not open after the crash: "+v.First.OpenErr)
	}
	for k, why := range v.First.Bad {
		return mk("partial-or-mixed-content", "after-crash", fmt.Sprintf("after the crash key %q: %s", k, why))
	}
	if v.Second.OpenErr != "" || !sameState(v.First.Vals, v.Second.Vals) || len(v.Second.Bad) > 0 {
		return mk("reopen-differs", "second-open", fmt.Sprintf("first open after the crash: %v; second open: %v %v %s", v.First.Vals, v.Second.Vals, v.Second.Bad, v.Second.OpenErr))
	}
	done, inflight, lines := parseConcLog(logPath)
	t := uint64(lines + 10)
	var tail []HEvent
	tail = append(tail, HEvent{Client: 99, Op: Op{K: "crash"}, Call: t, Ret: t + 1})
	t += 2
	for _, k := range c.Conc.Keys {
		e := HEvent{Client: 99, Op: Op{K: "get", Key: k}, Call: t, Ret: t + 1}
		if id, ok := v.First.Vals[k]; ok {
			e.ValID = id
		} else {
			e.Class = "ErrNotFound"
		}
		tail = append(tail, e)
		t += 2
	}
	tail = append(tail, HEvent{Client: 99, Op: Op{K: "keys"}, Keys: v.First.Keys, Call: t, Ret: t + 1})
	// in-flight writes / commits may or may not have taken effect
	var maybe []HEvent
	for _, e := range inflight {
		switch e.Op.K {
		case "set", "setr", "create", "del", "commit", "begin", "rollback":
			e.Ret = uint64(lines + 5)
			e.Class = ""
			maybe = append(maybe, e)
		}
	}
	for mask := 0; mask < 1<<len(maybe); mask++ {
		var ops []porcupine.Operation
		add := func(e HEvent) {
			ops = append(ops, porcupine.Operation{ClientId: e.Client, Input: e.Op, Call: int64(e.Call), Output: e, Return: int64(e.Ret)})
		}
		for _, e := range done {
			add(e)
		}
		for i, e := range maybe {
			if mask&(1<<i) != 0 {
				add(e)
			}
		}
		for _, e := range tail {
			add(e)
		}
		switch porcupine.CheckOperationsTimeout(linModel, ops, 5*time.Second) {
		case porcupine.Ok, porcupine.Unknown:
			return nil
		}
	}
	return mk("acked-lost-after-crash", "not-linearizable", fmt.Sprintf("recovered state %v (keys %q) cannot be explained: the acknowledged operations, any subset of the %d operations in flight, the crash and the recovered reads have no linearization", v.First.Vals, v.First.Keys, len(maybe)))
}

// genCrashBigCommit: one transaction writing more keys than any batching constant one might
// think of (1000, 1024, 2048), committed at once; the crash points of the commit are enumerated.
func genCrashBigCommit(r *simrt.Rand) CrashCase {
	c := SeqCase{Prop: "C04", ReadBack: "none"}
	c.Sched = SchedSpec{Seed: r.Uint64() &^ 1, Strategy: "seqbg", MaxSteps: 20_000_000}
	c.World = defaultWorldSpec()
	n := []int{1001, 1025, 2049, 2500}[r.Intn(4)]
	c.Keys = []string{"pre"}
	c.Ops = append(c.Ops, Op{K: "set", Key: "pre", ID: 1, Size: 20}, Op{K: "begin", Tx: 1, Level: r.Intn(4)})
	for i := 0; i < n; i++ {
		k := fmt.Sprintf("big-%04d", i)
		c.Keys = append(c.Keys, k)
		c.Ops = append(c.Ops, Op{K: "set", Tx: 1, Key: k, ID: uint64(10 + i), Size: 9 + i%5})
	}
	c.Ops = append(c.Ops, Op{K: "set", Tx: 1, Key: "pre", ID: 5, Size: 21}, Op{K: "commit", Tx: 1})
	return CrashCase{Seq: c, Torn: "none", OnlyLastOp: true, TailPoints: 12}
}

// genCrashOversizeCommit: one transaction whose version records (they carry the keys) add up to
// more than Badger accepts in a single transaction (15 % of the memtable: 1.2 MB with the
// simulator's sizing): the commit either succeeds as a whole or fails as a whole - at every crash
// point, too. Keys of about 100 KB are legal: the inline client takes any string.
func genCrashOversizeCommit(r *simrt.Rand) CrashCase {
	c := SeqCase{Prop: "C04", ReadBack: "none"}
	c.Sched = SchedSpec{Seed: r.Uint64(), Strategy: "seqbg", MaxSteps: 20_000_000}
	c.World = defaultWorldSpec()
	n := 11 + r.Intn(6)
	klen := 1_400_000/n + r.Intn(20_000)
	c.Keys = []string{"pre"}
	c.Ops = append(c.Ops, Op{K: "set", Key: "pre", ID: 1, Size: 20})
	var fat []string
	for i := 0; i < n; i++ {
		fat = append(fat, fmt.Sprintf("fat-%02d-", i)+strings.Repeat(string(rune('a'+i%26)), klen))
	}
	c.Keys = append(c.Keys, fat...)
	// some of the keys exist already (the commit then supersedes committed versions)
	for i := 0; i < n; i += 3 {
		c.Ops = append(c.Ops, Op{K: "set", Key: fat[i], ID: uint64(100 + i), Size: 9 + r.Intn(30)})
	}
	c.Ops = append(c.Ops, Op{K: "begin", Tx: 1, Level: r.Intn(4)})
	for i := 0; i < n; i++ {
		c.Ops = append(c.Ops, Op{K: "set", Tx: 1, Key: fat[i], ID: uint64(200 + i), Size: 9 + r.Intn(30)})
	}
	c.Ops = append(c.Ops, Op{K: "set", Tx: 1, Key: "pre", ID: 5, Size: 21}, Op{K: "commit", Tx: 1}, Op{K: "set", Key: "pre", ID: 6, Size: 22})
	return CrashCase{Seq: c, Torn: "none", OnlyLastOp: true, TailPoints: 90, Oversize: true}
}
