package harness

import (
	"bytes"
	"context"
	"errors"
	"fmt"
	"io"
	"sort"
	"strings"

	"github.com/glebziz/fs_db"
	"github.com/glebziz/fs_db/internal/model"
	"github.com/glebziz/fs_db/internal/verif/refmodel"
	"github.com/glebziz/fs_db/internal/verif/sctx"
)

// Op is one step of a generated program.
type Op struct {
	K      string `json:"k"`            // set setr create get getr keys del begin commit rollback | gc gctimer bg drain reopen
	Tx     int    `json:"tx,omitempty"` // transaction slot + 1 (0 = autocommit)
	Key    string `json:"key,omitempty"`
	Size   int    `json:"size,omitempty"`
	ID     uint64 `json:"id,omitempty"`     // write id (unique per program)
	Level  int    `json:"level,omitempty"`  // begin: isolation level
	Quiet  bool   `json:"quiet,omitempty"`  // begin: the transaction is left alone (no read-backs through it) until its first own statement, which may come many steps later
	NoLvl  bool   `json:"nolvl,omitempty"`  // begin: call Begin(ctx) without a level (Level is then 1: the documented default is ReadCommitted)
	Writes []int  `json:"writes,omitempty"` // create: sizes of the Write calls
	Shape  string `json:"shape,omitempty"`  // setr: reader shape (plain, byte, short, zero, dataeof)
	N      int    `json:"n,omitempty"`      // bg: number of background steps; gc: repetitions
	// Ctx: the context the caller passes. "" = one long-lived background context; "percall" = a
	// context of its own for this call, cancelled as soon as the call (for Create: Close, for
	// GetReader: the reader's Close) has returned, the `ctx, cancel := ...; defer cancel()` idiom;
	// "dead" = a context that is already cancelled when the call is made.
	Ctx string `json:"ctx,omitempty"`
	// Pre (copen): how many of Writes are written right after Create; the rest, and Close, follow
	// in the matching cclose some operations later
	Pre int `json:"pre,omitempty"`
}

func (o Op) tx() int { return o.Tx - 1 }

func (o Op) String() string {
	s := o.K
	if o.Tx > 0 {
		s += fmt.Sprintf("[tx%d]", o.Tx-1)
	}
	if len(o.Key) > 80 {
		s += fmt.Sprintf(" %q...(%d bytes)", o.Key[:24], len(o.Key))
	} else if o.Key != "" || o.K == "set" {
		s += fmt.Sprintf(" %q", o.Key)
	}
	if o.ID != 0 {
		s += fmt.Sprintf(" #%d(%dB)", o.ID, o.Size)
	}
	if o.Ctx != "" {
		s += " ctx=" + o.Ctx
	}
	if o.K == "begin" {
		s += fmt.Sprintf(" level=%d", o.Level)
		if o.NoLvl {
			s += "(no level given)"
		}
	}
	return s
}

// shapedReader feeds content in unusual but legal io.Reader shapes.
type shapedReader struct {
	b     []byte
	shape string
	calls int
}

func (r *shapedReader) Read(p []byte) (int, error) {
	r.calls++
	if len(p) == 0 {
		return 0, nil
	}
	switch r.shape {
	case "byte":
		if len(r.b) == 0 {
			return 0, io.EOF
		}
		p[0] = r.b[0]
		r.b = r.b[1:]
		return 1, nil
	case "short":
		if len(r.b) == 0 {
			return 0, io.EOF
		}
		n := 1 + (r.calls*7919)%1500
		if n > len(r.b) {
			n = len(r.b)
		}
		if n > len(p) {
			n = len(p)
		}
		copy(p, r.b[:n])
		r.b = r.b[n:]
		return n, nil
	case "zero":
		if r.calls%2 == 1 {
			return 0, nil // (0, nil) is allowed by io.Reader
		}
	case "dataeof":
		n := copy(p, r.b)
		r.b = r.b[n:]
		if len(r.b) == 0 {
			return n, io.EOF // data together with EOF
		}
		return n, nil
	}
	if len(r.b) == 0 {
		return 0, io.EOF
	}
	n := copy(p, r.b)
	r.b = r.b[n:]
	return n, nil
}

// callerBuf plays a caller that owns one buffer and reuses it for every Write call, as io.Copy does:
// the chunk is copied into the buffer, written, and the buffer is overwritten as soon as Write
// returns (io.Writer: "Write must not retain p").
type callerBuf struct{ b []byte }

func (cb *callerBuf) write(w io.Writer, chunk []byte) (int, error) {
	if cap(cb.b) < len(chunk) {
		cb.b = make([]byte, len(chunk))
	}
	p := cb.b[:len(chunk)]
	copy(p, chunk)
	n, err := w.Write(p)
	scribble(p)
	return n, err
}

// scribble overwrites a buffer the caller is free to reuse.
func scribble(p []byte) {
	for i := range p {
		p[i] = 0xA5
	}
}

// OpResult is what the implementation answered.
type OpResult struct {
	Err   error
	Class string
	Data  []byte
	Keys  []string
	// HandedOut: Create itself returned a file (whatever Write and Close said afterwards)
	HandedOut bool
}

// actor resolves the Store to call for an op: the DB itself or an open/ended transaction.
type actors struct {
	db  fs_db.DB
	txs map[int]fs_db.Tx
}

func (a *actors) store(tx int) (fs_db.Store, bool) {
	if tx < 0 {
		return a.db, true
	}
	t, ok := a.txs[tx]
	return t, ok
}

var levels = []model.TxIsoLevel{fs_db.IsoLevelReadUncommitted, fs_db.IsoLevelReadCommitted, fs_db.IsoLevelRepeatableRead, fs_db.IsoLevelSerializable}

// apply executes a data operation against the implementation.
func (a *actors) apply(ctx context.Context, o Op) OpResult {
	var r OpResult
	switch o.Ctx {
	case "percall":
		c, cancel := sctx.WithCancel(ctx)
		defer cancel()
		ctx = c
	case "dead":
		c, cancel := sctx.WithCancel(ctx)
		cancel()
		ctx = c
	}
	switch o.K {
	case "beginbad":
		// Begin with an isolation level that does not exist: what it answers is not specified (the
		// pinned revision runs it as if it were the lowest level, refusing it is as good); whatever
		// it is, it must leave nothing behind - a transaction that was handed out is rolled back at
		// once
		t, err := a.db.Begin(ctx, model.TxIsoLevel(4+o.N))
		if err == nil {
			t.Rollback(ctx)
		}
	case "begin":
		var t fs_db.Tx
		var err error
		if o.NoLvl && o.Level == 1 {
			t, err = a.db.Begin(ctx)
		} else {
			t, err = a.db.Begin(ctx, levels[o.Level])
		}
		r.Err = err
		if err == nil {
			a.txs[o.tx()] = t
		}
	case "commit":
		r.Err = a.txs[o.tx()].Commit(ctx)
	case "rollback":
		r.Err = a.txs[o.tx()].Rollback(ctx)
	default:
		s, ok := a.store(o.tx())
		if !ok {
			r.Err = errors.New("harness: unknown transaction slot")
			break
		}
		switch o.K {
		case "set":
			b := payload(o.ID, o.Size)
			r.Err = s.Set(ctx, o.Key, b)
			scribble(b) // the slice is the caller's again once Set has returned
		case "setr":
			var src io.Reader = &shapedReader{b: payload(o.ID, o.Size), shape: o.Shape}
			if o.Shape == "preread" {
				// a reader that knows its total size and has been read in part already (a header was
				// consumed): what is to be stored is what is LEFT in it
				junk := 1 + int(o.ID%700)
				br := bytes.NewReader(append(make([]byte, junk), payload(o.ID, o.Size)...))
				io.CopyN(io.Discard, br, int64(junk))
				src = br
			}
			if o.Shape == "prereadstr" {
				junk := 1 + int(o.ID%700)
				sr := strings.NewReader(strings.Repeat("#", junk) + string(payload(o.ID, o.Size)))
				io.CopyN(io.Discard, sr, int64(junk))
				src = sr
			}
			if o.Shape == "failing" {
				// a source that fails part-way (the offset is a function of the write id): the write
				// must fail and store nothing
				fired := false
				src = &failingReader{b: payload(o.ID, o.Size), failAt: int((o.ID * 7919) % uint64(o.Size+1)), fired: &fired, chunk: 1500}
			}
			r.Err = s.SetReader(ctx, o.Key, src)
		case "create":
			f, err := s.Create(ctx, o.Key)
			if err != nil {
				r.Err = err
				break
			}
			r.HandedOut = true
			b := payload(o.ID, o.Size)
			var werr error
			var cb callerBuf
			for _, n := range o.Writes {
				var m int
				m, werr = cb.write(f, b[:n])
				if werr != nil {
					break
				}
				if m != n {
					werr = fmt.Errorf("harness: Write of %d bytes returned %d, nil", n, m)
					break
				}
				b = b[n:]
			}
			cerr := f.Close()
			if werr != nil && cerr == nil && !strings.HasPrefix(werr.Error(), "harness:") {
				// a caller may well ignore what Write returns and take the verdict from Close: a file
				// one of whose Writes failed must not be closed "successfully"
				r.Err = fmt.Errorf("harness: a Write failed (%v) and Close returned nil all the same", werr)
			} else if werr != nil {
				r.Err = werr
			} else {
				r.Err = cerr
			}
		case "get":
			r.Data, r.Err = s.Get(ctx, o.Key)
		case "getr":
			rc, err := s.GetReader(ctx, o.Key)
			if err != nil {
				r.Err = err
				break
			}
			r.Data, r.Err = consumeClose(rc, o.Shape, o.Size)
		case "keys":
			r.Keys, r.Err = s.GetKeys(ctx)
		case "del":
			r.Err = s.Delete(ctx, o.Key)
		default:
			r.Err = fmt.Errorf("harness: unknown op %q", o.K)
		}
	}
	r.Class = classOf(r.Err)
	return r
}

// modelApply executes the same operation on the reference model and compares.
// It returns a description of the first disagreement ("" if none).
func modelApply(m *refmodel.Model, o Op, r OpResult, idx *valueIndex) (class, detail string) {
	switch o.K {
	case "begin":
		m.Begin(o.tx(), refmodel.Level(o.Level))
		if r.Err != nil {
			return "error-class", fmt.Sprintf("Begin failed: %v", r.Err)
		}
	case "commit":
		want := m.Commit(o.tx())
		if string(want) != r.Class {
			return "error-class", fmt.Sprintf("Commit returned class %q (%v), the model says %q", r.Class, r.Err, want)
		}
	case "rollback":
		want := m.Rollback(o.tx())
		if string(want) != r.Class {
			return "error-class", fmt.Sprintf("Rollback returned class %q (%v), the model says %q", r.Class, r.Err, want)
		}
	case "set", "setr", "create":
		v := refmodel.Val{ID: o.ID, Size: o.Size}
		idx.add(v)
		want := m.Set(o.tx(), o.Key, v)
		if string(want) != r.Class {
			return "error-class", fmt.Sprintf("%s returned class %q (%v), the model says %q", o.K, r.Class, r.Err, want)
		}
	case "del":
		want := m.Delete(o.tx(), o.Key)
		if string(want) != r.Class {
			return "error-class", fmt.Sprintf("Delete returned class %q (%v), the model says %q", r.Class, r.Err, want)
		}
	case "get", "getr":
		return compareGet(m, o.tx(), o.Key, r, idx)
	case "keys":
		return compareKeys(m, o.tx(), r)
	}
	return "", ""
}

func compareGet(m *refmodel.Model, tx int, key string, r OpResult, idx *valueIndex) (string, string) {
	ans, want := m.Get(tx, key)
	if want != refmodel.OK {
		if string(want) != r.Class {
			got := fmt.Sprintf("class %q (%v)", r.Class, r.Err)
			if r.Err == nil {
				got = idx.describe(r.Data)
			}
			cl := "error-class"
			if r.Err == nil {
				cl = "value"
			}
			return cl, fmt.Sprintf("Get(%q) returned %s, the model says %s", key, got, want)
		}
		return "", ""
	}
	if r.Err != nil {
		for _, a := range ans {
			if a.Deleted() && r.Class == "ErrNotFound" {
				return "", ""
			}
		}
		cl := "error-class"
		if r.Class == "ErrNotFound" {
			cl = "value"
		}
		return cl, fmt.Sprintf("Get(%q) failed with class %q (%v), the model says it returns write #%d (%d bytes)", key, r.Class, r.Err, ans[0].ID, ans[0].Size)
	}
	for _, a := range ans {
		if !a.Deleted() && len(r.Data) == a.Size && bytes.Equal(r.Data, contentOf(a)) {
			return "", ""
		}
	}
	return "value", fmt.Sprintf("Get(%q) returned %s, the model says write #%d (%d bytes)", key, idx.describe(r.Data), ans[0].ID, ans[0].Size)
}

func compareKeys(m *refmodel.Model, tx int, r OpResult) (string, string) {
	must, may, want := m.Keys(tx)
	if want != refmodel.OK {
		if string(want) != r.Class {
			return "error-class", fmt.Sprintf("GetKeys returned class %q (%v), the model says %s", r.Class, r.Err, want)
		}
		return "", ""
	}
	if r.Err != nil {
		return "error-class", fmt.Sprintf("GetKeys failed: %v", r.Err)
	}
	if !sort.StringsAreSorted(r.Keys) {
		return "keys", fmt.Sprintf("GetKeys is not sorted: %q", r.Keys)
	}
	got := map[string]bool{}
	for i, k := range r.Keys {
		if i > 0 && r.Keys[i-1] == k {
			return "keys", fmt.Sprintf("GetKeys lists %q twice: %q", k, r.Keys)
		}
		got[k] = true
	}
	allowed := map[string]bool{}
	for _, k := range must {
		allowed[k] = true
		if !got[k] {
			return "keys", fmt.Sprintf("GetKeys = %q misses %q (model: %q)", r.Keys, k, must)
		}
	}
	for _, k := range may {
		allowed[k] = true
	}
	for _, k := range r.Keys {
		if !allowed[k] {
			return "keys", fmt.Sprintf("GetKeys = %q lists %q which has no readable value (model: %q)", r.Keys, k, must)
		}
	}
	return "", ""
}
