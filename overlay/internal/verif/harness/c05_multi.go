package harness

import (
	"encoding/json"
	"fmt"
	"hash/fnv"
	"os"
	"path/filepath"
	"strings"

	"github.com/glebziz/fs_db"
	"github.com/glebziz/fs_db/internal/model/sequence"
	"github.com/glebziz/fs_db/internal/verif/refmodel"
	"github.com/glebziz/fs_db/internal/verif/simrt"
)

// C05 — reopen and several databases in one process. Up to three database directories live in
// one world; they are opened and closed in any order and overlapping in time and share the
// process-global sequence counter. "newproc" (only when every database is closed) makes the
// counter that of a fresh process, i.e. a process boundary.

type MOp struct {
	Op
	DB int `json:"db,omitempty"`
	// copen: database DB is opened while a second client performs the operations Con on the
	// already open database ConDB (both share the process-global sequence counter)
	Con   []Op `json:"con,omitempty"`
	ConDB int  `json:"condb,omitempty"`
}

type MultiCase struct {
	Sched SchedSpec `json:"sched"`
	World WorldSpec `json:"world"`
	NDB   int       `json:"ndb"`
	Keys  []string  `json:"keys"`
	Ops   []MOp     `json:"ops"`
}

type propC05 struct{ seqProp }

func init() {
	Register(propC05{seqProp{id: "C05",
		rule: "cases: (a) single-database histories as C01-C03 with Close/Open inserted at seeded positions (at some of them the configuration lists the same roots in another order) and transactions left open across Close; (b) 2-3 database directories in one process opened/closed in any order and overlapping in time, sharing the process-global sequence counter, with process boundaries (counter reset while everything is closed) between segments, including 'open a fresh database, write, then open an older, fuller one', and (every other such case, under a seeded concurrent schedule) 'open a database while a second client keeps overwriting a key of another open one, which is written again afterwards'; after every step every open database is read back (autocommit and open transactions) against its own reference model, which is carried across reopen; distinct = hash(ops, switch trace); non-trivial = a write was acknowledged after a reopen and a later reopen followed",
		runs: [2]int{3000, 120000}}})
}

func (p propC05) Gen(r *simrt.Rand, idx int, tier string) any {
	if idx%8 == 5 || idx%8 == 7 {
		// a concurrent history (C06's programs), then quiescence, Close, Open: what is read after
		// the reopen must be what was read before (the persisted order of concurrent writes must
		// be the order readers saw)
		c := genC06(r, idx, tier)
		c.Prop, c.Reopen = "C05", true
		return C05Case{Conc: &c}
	}
	if idx%16 == 9 {
		// bulk: a few hundred persisted records (several versions of some keys) across reopenings
		c := SeqCase{Prop: "C05", ReadBack: "none"}
		c.Sched = SchedSpec{Seed: r.Uint64(), Strategy: "seqbg", MaxSteps: 3_000_000}
		c.World = genWorldSpec(r)
		nk := 110 + r.Intn(200)
		rounds := 2 + r.Intn(2)
		if idx%64 == 25 {
			// thousands of records (more than any page or batch size one might choose for the scan at Open)
			nk = 1025 + r.Intn(1400)
			rounds = 1 + r.Intn(2)
		}
		for i := 0; i < nk; i++ {
			c.Keys = append(c.Keys, fmt.Sprintf("bulk-%04d", i))
		}
		id := uint64(0)
		for round := 0; round < rounds; round++ {
			for i := 0; i < nk; i++ {
				if round == 0 || r.Intn(4) == 0 {
					id++
					c.Ops = append(c.Ops, Op{K: "set", Key: c.Keys[i], ID: id, Size: 1 + r.Intn(24)})
				} else if r.Intn(20) == 0 {
					c.Ops = append(c.Ops, Op{K: "del", Key: c.Keys[i]})
				}
			}
			if r.Intn(2) == 0 {
				c.Ops = append(c.Ops, Op{K: "drain"})
			}
			c.Ops = append(c.Ops, Op{K: "reopen"}, Op{K: "keys"})
			for _, ki := range r.Perm(nk)[:40] {
				c.Ops = append(c.Ops, Op{K: "get", Key: c.Keys[ki]})
			}
		}
		return C05Case{Single: &c}
	}
	if idx%2 == 0 {
		c := genSeqCase(r, seqProfile{prop: "C05", steps: [2]int{15, 50}, keys: [2]int{2, 4}, maxTx: 4, txWeight: 50, ctlWeight: 8, reopen: 10, readback: "all"})
		if idx%6 == 2 && len(c.World.Roots) > 1 {
			// at some of the reopenings the configuration lists the same roots in another order
			for i := range c.Ops {
				if c.Ops[i].K == "reopen" && i%2 == 0 {
					c.Ops[i].Pre = 1
				}
			}
		}
		if idx%10 == 4 {
			// a key of a length nobody planned for (the inline client takes any string)
			long := strings.Repeat("K", []int{65001, 70000, 100000}[r.Intn(3)])
			c.Keys = append(c.Keys, long)
			for i := range c.Ops {
				if c.Ops[i].Key != "" && c.Ops[i].Key != "never-written" && r.Intn(4) == 0 {
					c.Ops[i].Key = long
				}
			}
		}
		if idx%8 == 2 {
			// Run B: the same kind of history, every Close/Open being a real process boundary: one
			// fresh child process per segment on a directory that outlives them
			for i := range c.Ops {
				if c.Ops[i].K == "reopen" {
					c.Ops[i].K = "restart"
				}
			}
			c.Ops = append(c.Ops, Op{K: "restart"}, Op{K: "keys"})
			c.Dir = "segments"
		}
		return C05Case{Single: &c}
	}
	c := MultiCase{NDB: 2 + r.Intn(2), Keys: genKeys(r, 2, 3)}
	c.Sched = SchedSpec{Seed: r.Uint64(), Strategy: "seqbg", MaxSteps: 3_000_000}
	c.World = genWorldSpec(r)
	c.World.Roots = []RootSpec{{}}
	// every other multi-database case opens databases while a second client writes to another one
	concurrentOpen := idx%4 == 3
	if concurrentOpen {
		c.Sched = genSched(r, 700)
		c.Sched.MaxSteps = 3_000_000
	}
	open := make([]bool, c.NDB)
	txOpen := make([][]int, c.NDB)
	nextTx := 0
	id := uint64(0)
	n := 20 + r.Intn(50)
	anyOpen := func() bool {
		for _, o := range open {
			if o {
				return true
			}
		}
		return false
	}
	if concurrentOpen && idx%16 == 3 {
		// a database written by an earlier process whose counter was far ahead is opened in a fresh
		// process while another database of that process is busy; a key it already holds is then
		// written again, and the final phase reopens it alone
		d, e := 0, 1
		key := c.Keys[0]
		c.Ops = append(c.Ops, MOp{Op: Op{K: "open"}, DB: e})
		for b := 0; b < 1+r.Intn(3); b++ {
			id++
			c.Ops = append(c.Ops, MOp{Op: Op{K: "set", Key: c.Keys[r.Intn(len(c.Keys))], ID: id, Size: r.Intn(40)}, DB: e})
		}
		c.Ops = append(c.Ops, MOp{Op: Op{K: "open"}, DB: d})
		for b := 0; b < 20+r.Intn(40); b++ {
			id++
			c.Ops = append(c.Ops, MOp{Op: Op{K: "set", Key: c.Keys[r.Intn(len(c.Keys))], ID: id, Size: r.Intn(40)}, DB: d})
		}
		id++
		c.Ops = append(c.Ops, MOp{Op: Op{K: "set", Key: key, ID: id, Size: 9 + r.Intn(40)}, DB: d},
			MOp{Op: Op{K: "close"}, DB: d}, MOp{Op: Op{K: "close"}, DB: e}, MOp{Op: Op{K: "newproc"}}, MOp{Op: Op{K: "open"}, DB: e})
		var con []Op
		for b := 0; b < 4+r.Intn(8); b++ {
			id++
			con = append(con, Op{K: "set", Key: c.Keys[r.Intn(len(c.Keys))], ID: id, Size: r.Intn(40)})
		}
		c.Ops = append(c.Ops, MOp{Op: Op{K: "copen", N: 1}, DB: d, Con: con, ConDB: e})
		if r.Intn(2) == 0 {
			// the opener is held back whenever it is about to compare-and-swap something
			c.Sched.Strategy, c.Sched.Bias, c.Sched.TimerProb = "stretch", 0.5, 0.01
			c.Sched.StallG, c.Sched.StretchTag = 2, "atomic.CAS"
			c.Sched.StretchFor, c.Sched.StretchTimes = uint64([]int{300, 800, 2000}[r.Intn(3)]), 1+r.Intn(4)
		}
		for b := 0; b < 1+r.Intn(3); b++ {
			id++
			c.Ops = append(c.Ops, MOp{Op: Op{K: "set", Key: key, ID: id, Size: 9 + r.Intn(40)}, DB: d}, MOp{Op: Op{K: "get", Key: key}, DB: d})
		}
		open[d], open[e] = true, true
		n = len(c.Ops) + r.Intn(10)
	}
	for len(c.Ops) < n {
		d := r.Intn(c.NDB)
		switch {
		case concurrentOpen && !open[d] && anyOpen() && r.Intn(2) == 0:
			// open d while another client keeps overwriting one key of an open database; that key is
			// written again afterwards, and the final phase reopens every database on its own
			e := 0
			for x := range open {
				if open[x] {
					e = x
				}
			}
			if r.Intn(2) == 0 {
				// make the database that is about to be opened one with many records to load
				c.Ops = append(c.Ops, MOp{Op: Op{K: "open"}, DB: d})
				for b := 0; b < 8+r.Intn(16); b++ {
					id++
					c.Ops = append(c.Ops, MOp{Op: Op{K: "set", Key: c.Keys[r.Intn(len(c.Keys))], ID: id, Size: r.Intn(40)}, DB: d})
				}
				c.Ops = append(c.Ops, MOp{Op: Op{K: "close"}, DB: d})
			}
			key := c.Keys[r.Intn(len(c.Keys))]
			var con []Op
			for b := 0; b < 2+r.Intn(6); b++ {
				id++
				con = append(con, Op{K: "set", Key: key, ID: id, Size: r.Intn(40)})
			}
			c.Ops = append(c.Ops, MOp{Op: Op{K: "copen"}, DB: d, Con: con, ConDB: e})
			open[d] = true
			for b := 0; b < 1+r.Intn(3); b++ {
				id++
				c.Ops = append(c.Ops, MOp{Op: Op{K: "set", Key: key, ID: id, Size: r.Intn(40)}, DB: e})
			}
		case !open[d] && r.Intn(3) > 0:
			if !anyOpen() && r.Intn(2) == 0 {
				c.Ops = append(c.Ops, MOp{Op: Op{K: "newproc"}})
			}
			c.Ops = append(c.Ops, MOp{Op: Op{K: "open"}, DB: d})
			open[d] = true
		case !open[d]:
		case r.Intn(12) == 0:
			c.Ops = append(c.Ops, MOp{Op: Op{K: "close"}, DB: d})
			open[d] = false
			txOpen[d] = nil
		default:
			tx := -1
			if len(txOpen[d]) > 0 && r.Intn(2) == 0 {
				tx = txOpen[d][r.Intn(len(txOpen[d]))]
			}
			switch r.Pick(10, 2, 3, 2, 2) {
			case 0:
				// bursts of writes make one database "fuller" (a larger persisted sequence)
				burst := 1
				if r.Intn(4) == 0 {
					burst = 3 + r.Intn(12)
				}
				for b := 0; b < burst; b++ {
					id++
					c.Ops = append(c.Ops, MOp{Op: Op{K: "set", Tx: tx + 1, Key: c.Keys[r.Intn(len(c.Keys))], ID: id, Size: r.Intn(40)}, DB: d})
				}
			case 1:
				c.Ops = append(c.Ops, MOp{Op: Op{K: "del", Tx: tx + 1, Key: c.Keys[r.Intn(len(c.Keys))]}, DB: d})
			case 2:
				c.Ops = append(c.Ops, MOp{Op: Op{K: "get", Tx: tx + 1, Key: c.Keys[r.Intn(len(c.Keys))]}, DB: d})
			case 3:
				if len(txOpen[d]) < 2 {
					b := Op{K: "begin", Tx: nextTx + 1, Level: r.Intn(4)}
					b.NoLvl = b.Level == 1 && nextTx%2 == 0
					c.Ops = append(c.Ops, MOp{Op: b, DB: d})
					txOpen[d] = append(txOpen[d], nextTx)
					nextTx++
				}
			default:
				if tx >= 0 {
					k := "commit"
					if r.Intn(3) == 0 {
						k = "rollback"
					}
					c.Ops = append(c.Ops, MOp{Op: Op{K: k, Tx: tx + 1}, DB: d})
					for i, t := range txOpen[d] {
						if t == tx {
							txOpen[d] = append(txOpen[d][:i], txOpen[d][i+1:]...)
							break
						}
					}
				}
			}
		}
	}
	// final: close everything, new process, open each database alone and read it back
	for d := range open {
		if open[d] {
			c.Ops = append(c.Ops, MOp{Op: Op{K: "close"}, DB: d})
		}
	}
	for d := 0; d < c.NDB; d++ {
		c.Ops = append(c.Ops, MOp{Op: Op{K: "newproc"}}, MOp{Op: Op{K: "open"}, DB: d}, MOp{Op: Op{K: "close"}, DB: d})
	}
	return C05Case{Multi: &c}
}

type C05Case struct {
	Single *SeqCase   `json:"single,omitempty"`
	Multi  *MultiCase `json:"multi,omitempty"`
	Conc   *ConcCase  `json:"conc,omitempty"`
}

func (p propC05) Decode(b json.RawMessage) (any, error) {
	var c C05Case
	err := json.Unmarshal(b, &c)
	return c, err
}

func (p propC05) Exec(x any, choices []int32) RunOut {
	c := x.(C05Case)
	if c.Conc != nil {
		out, cr := concExec(*c.Conc, choices)
		out.NonTrivial = cr.overlaps() > 0
		return out
	}
	if c.Single != nil {
		if c.Single.Dir == "segments" {
			return segmentedExec(*c.Single)
		}
		return seqExec(*c.Single, choices)
	}
	return multiExec(*c.Multi, choices)
}

func (p propC05) Shrink(x any) []any {
	c := x.(C05Case)
	var out []any
	if c.Conc != nil {
		for _, d := range concShrink(*c.Conc) {
			d := d
			out = append(out, C05Case{Conc: &d})
		}
		return out
	}
	if c.Single != nil {
		for _, s := range p.seqProp.Shrink(*c.Single) {
			sc := s.(SeqCase)
			out = append(out, C05Case{Single: &sc})
		}
		return out
	}
	m := *c.Multi
	n := len(m.Ops)
	for i := n - 1; i >= 0 && len(out) < 150; i-- {
		o := m.Ops[i]
		if o.K == "open" || o.K == "copen" || o.K == "close" || o.K == "newproc" {
			continue // keep the life cycle well-formed
		}
		d := m
		d.Ops = nil
		for j, x := range m.Ops {
			if j == i || (o.K == "begin" && x.Tx == o.Tx && x.DB == o.DB) {
				continue
			}
			d.Ops = append(d.Ops, x)
		}
		out = append(out, C05Case{Multi: &d})
	}
	return out
}

func multiExec(c MultiCase, choices []int32) RunOut {
	type dbState struct {
		db                fs_db.DB
		a                 *actors
		m                 *refmodel.Model
		dir               string
		roots             []string
		writesAfterReopen bool
		opened            int
	}
	var (
		viol       *Violation
		infra      string
		w          *World
		probes     = map[string]uint64{}
		nontrivial bool
		idx        = &valueIndex{}
	)
	fail := func(class, ctx, detail string) {
		if viol == nil {
			viol = &Violation{Class: class, Signature: "C05|" + class + "|" + ctx, Detail: detail}
		}
	}
	cfg := c.Sched.config(choices)
	hasCopen := false
	for _, o := range c.Ops {
		if o.K == "copen" {
			hasCopen = true
		}
	}
	if !hasCopen {
		cfg.Strategy = "seqbg"
	}
	res := simrt.Run(cfg, func() {
		var err error
		w, err = NewWorld(c.World, c.Sched.Seed)
		if err != nil {
			infra = err.Error()
			return
		}
		dbs := make([]*dbState, c.NDB)
		for d := range dbs {
			dbs[d] = &dbState{m: refmodel.New(), dir: filepath.Join(w.Dir, fmt.Sprintf("db%d", d)), roots: []string{filepath.Join(w.Dir, fmt.Sprintf("db%d-root", d))}}
			os.MkdirAll(dbs[d].dir, 0o755)
		}
		readBack := func(i int, after MOp) {
			for d, s := range dbs {
				if s.db == nil || viol != nil {
					continue
				}
				ids := append([]int{-1}, s.m.OpenTxs()...)
				for _, id := range ids {
					st, _ := s.a.store(id)
					for _, k := range c.Keys {
						b, err := st.Get(w.Ctx, k)
						r := OpResult{Err: err, Class: classOf(err), Data: b}
						if cl, det := compareGet(s.m, id, k, r, idx); cl != "" {
							ctx := "readback"
							if after.K == "open" || after.K == "copen" {
								ctx = "after-open"
								cl = "reopen-differs"
							}
							fail(cl, fmt.Sprintf("%s,actor=%s", ctx, actorName(s.m, id)), fmt.Sprintf("after step %d (%s on db%d): database %d read by %s: %s", i, after.Op, after.DB, d, actorName(s.m, id), det))
							return
						}
					}
					ks, err := st.GetKeys(w.Ctx)
					if cl, det := compareKeys(s.m, id, OpResult{Err: err, Class: classOf(err), Keys: ks}); cl != "" {
						fail(cl, "readback-keys,actor="+actorName(s.m, id), fmt.Sprintf("after step %d (%s on db%d): database %d: %s", i, after.Op, after.DB, d, det))
						return
					}
				}
			}
		}
		for i, o := range c.Ops {
			s := dbs[o.DB]
			switch o.K {
			case "newproc":
				sequence.VerifReset(0)
				probes["process-boundary"]++
			case "open", "copen":
				var wg simrt.WaitGroup
				if o.K == "copen" {
					e := dbs[o.ConDB]
					wg.Add(1)
					simrt.GoNamed("client2", 0, func() {
						defer wg.Done()
						for _, x := range o.Con {
							r := e.a.apply(w.Ctx, x)
							if cl, det := modelApply(e.m, x, r, idx); cl != "" {
								fail(cl, fmt.Sprintf("op=%s,actor=auto,during-open", x.K), fmt.Sprintf("step %d (%s on db%d while db%d is being opened): %s", i, x, o.ConDB, o.DB, det))
							}
							if e.opened > 1 {
								e.writesAfterReopen = true
							}
						}
					})
					probes["open-overlapping-writes-elsewhere"]++
				}
				var (
					db  fs_db.DB
					err error
				)
				if o.K == "copen" && o.N == 1 {
					// the opener is a client of its own (so that a schedule can hold it back inside Open)
					wg.Add(1)
					simrt.GoNamed("opener", 0, func() {
						defer wg.Done()
						db, _, err = openInline(w.Ctx, w.ConfigFor(s.dir, s.roots))
					})
				} else {
					db, _, err = openInline(w.Ctx, w.ConfigFor(s.dir, s.roots))
				}
				wg.Wait()
				if err != nil {
					fail("reopen-differs", "open", fmt.Sprintf("step %d: Open of database %d failed: %v", i, o.DB, err))
					break
				}
				s.db = db
				s.a = &actors{db: db, txs: map[int]fs_db.Tx{}}
				s.m.Reopen()
				s.opened++
				if s.opened > 1 && s.writesAfterReopen {
					nontrivial = true
				}
				others := 0
				for _, x := range dbs {
					if x.db != nil {
						others++
					}
				}
				if others > 1 {
					probes["open-while-another-is-open"]++
				}
			case "close":
				if err := s.db.Close(); err != nil {
					fail("error-class", "close", fmt.Sprintf("step %d: Close failed: %v", i, err))
				}
				s.db = nil
			default:
				r := s.a.apply(w.Ctx, o.Op)
				if cl, det := modelApply(s.m, o.Op, r, idx); cl != "" {
					fail(cl, fmt.Sprintf("op=%s,actor=%s", o.K, actorName(s.m, o.tx())), fmt.Sprintf("step %d (%s on db%d): %s", i, o.Op, o.DB, det))
				}
				if s.opened > 1 && (o.K == "set" || o.K == "del") {
					s.writesAfterReopen = true
				}
			}
			if viol != nil {
				break
			}
			if o.K != "newproc" && o.K != "close" {
				readBack(i, o)
			}
			if viol != nil {
				break
			}
		}
		if viol != nil {
			simrt.Stop()
		}
		for _, s := range dbs {
			if s.db != nil {
				s.db.Close()
			}
		}
	})
	if w != nil {
		w.Destroy()
	}
	out := RunOut{Steps: res.Steps, Switches: res.Switches, TimerFires: res.TimerFires, SimNs: res.SimTimeNs,
		TraceHash: res.TraceHash, SwitchHash: res.SwitchHash, Choices: res.Choices, Log: res.Log, Probes: probes, NonTrivial: nontrivial}
	b, _ := json.Marshal(c.Ops)
	h := fnv.New64a()
	h.Write(b)
	out.CaseHash = h.Sum64() ^ res.SwitchHash
	var ops []string
	for _, o := range c.Ops {
		ops = append(ops, fmt.Sprintf("db%d:%s", o.DB, o.Op))
	}
	out.Sample, _ = json.Marshal(map[string]any{"engine": "dbsim multi-database", "ndb": c.NDB, "ops": ops})
	if infra != "" {
		out.Infra = infra
		out.MustExit = true
		return out
	}
	finishStatus(&out, res, "C05", viol, "multi")
	return out
}
