package harness

import "github.com/glebziz/fs_db"

// simgrpc hooks (filled in by simgrpc.go)
type simLink struct {
	impl interface {
		CutAfter(dir string, n int, fired *bool)
		Heal()
	}
}

func (l *simLink) cutAfter(dir string, n int, fired *bool) {
	if l != nil && l.impl != nil {
		l.impl.CutAfter(dir, n, fired)
	}
}
func (l *simLink) heal() {
	if l != nil && l.impl != nil {
		l.impl.Heal()
	}
}

var newSimGrpcImpl func(w *World) (fs_db.DB, *simLink)

func simGrpcAvailable() bool { return newSimGrpcImpl != nil }

func newSimGrpc(w *World) (fs_db.DB, *simLink) { return newSimGrpcImpl(w) }
