package harness

import (
	"bytes"
	"encoding/json"
	"errors"
	"fmt"
	"github.com/glebziz/fs_db/internal/model"
	"hash/fnv"
	"io"
	"os"
	"sort"
	"strings"

	"github.com/glebziz/fs_db"
	"github.com/glebziz/fs_db/internal/model/sequence"
	"github.com/glebziz/fs_db/internal/verif/refmodel"
	"github.com/glebziz/fs_db/internal/verif/simrt"
)

// SeqCase is a sequential history (one driver goroutine) on a whole inline database, strategy
// seq-bg: the database's background goroutines run only at operation boundaries (control ops
// bg/drain/gctimer) or when the driver itself has to wait for them.
type SeqCase struct {
	Prop              string    `json:"prop"`
	Sched             SchedSpec `json:"sched"`
	World             WorldSpec `json:"world"`
	Keys              []string  `json:"keys"`
	Ops               []Op      `json:"ops"`
	ReadBack          string    `json:"readback"`                  // all: every open actor reads every key + GetKeys after each data step; auto: autocommit only; none
	Walk              string    `json:"walk,omitempty"`            // "": none; "shape": C17 layout walk after every step; "final": C14 exact-content walk at the end
	Client            string    `json:"client,omitempty"`          // inline (default) | simgrpc
	BadgerFailUpdates []uint64  `json:"badger_fail,omitempty"`     // indices (per world, 1-based) of Badger updates that fail before applying
	FaultOps          []int     `json:"fault_ops,omitempty"`       // indices of ops whose Badger updates fail (resolved at run time)
	ReadDirFullAt     []int     `json:"readdir_full_at,omitempty"` // at these op indices the next listing of a directory that is full (holds the configured maximum) is armed to fail (EIO); it fires inside the write that would rotate that directory out
	MkdirFaultAt      []int     `json:"mkdir_fault_at,omitempty"`  // at these op indices the next directory creation is armed to fail (ENOSPC); it fires inside whichever later write needs a new directory
	FaultLate         bool      `json:"fault_late,omitempty"`      // those updates fail at their commit step, after their function has run, instead of before it
	// process-boundary segments: the world lives in Dir (kept between processes); operations before
	// From only advance the model (earlier processes executed them), operations from To on are left
	// to later processes
	Dir     string       `json:"dir,omitempty"`
	From    int          `json:"from,omitempty"`
	To      int          `json:"to,omitempty"`
	Fixture string       `json:"fixture,omitempty"` // start from this database directory (written by another binary) instead of an empty one
	Corrupt *CorruptSpec `json:"corrupt,omitempty"`
}

// CorruptSpec damages one stored version record before the database is opened.
type CorruptSpec struct {
	Pick     int  `json:"pick"`     // which file/ record (index modulo their number)
	Truncate int  `json:"truncate"` // new length (-1: keep the length)
	Garble   bool `json:"garble"`   // replace the bytes by seeded garbage
}

type seqRun struct {
	c            SeqCase
	w            *World
	m            *refmodel.Model
	a            *actors
	idx          *valueIndex
	viol         *Violation
	states       map[uint64]bool
	probes       map[string]uint64
	faults       map[string]uint64
	ended        map[int]bool
	dirSeenFull  map[string]bool
	dirRegained  map[string]int
	dirQuiesced  map[string]bool // the world has been at exact quiescence since the directory regained room
	writesSince  map[string]int
	missLog      map[string]float64 // per regained directory: ln of the chance that a fair choice missed it so far
	nontrivial   bool
	readers      map[int]*heldReader
	writers      map[int]*heldWriter
	droppedFiles map[string]bool // files that existed when a root was last taken out of the configuration
	quiet        map[int]bool    // transactions begun and not used yet, which the read-backs leave alone
	// grandfathered: directories that held more than the new limit when the limit was lowered at a
	// reopen, with the count they had then
	grandfathered map[string]int
}

// heldWriter is a file obtained from Create whose remaining Writes and Close happen only after other
// operations have been made (also on the same key): the value takes effect when Close returns.
type heldWriter struct {
	f    fs_db.File
	op   Op
	rest []byte
	werr error
	cb   callerBuf
}

// heldReader is a content reader that was handed out by GetReader and is read only later, after
// other operations (overwrites, deletes, collector runs, the end of its transaction) have
// happened: it must still deliver the complete content it was opened on.
type heldReader struct {
	rc       io.ReadCloser
	ans      []refmodel.Val
	key      string
	actor    string
	openedAt int
}

func actorName(m *refmodel.Model, tx int) string {
	if tx < 0 {
		return "auto"
	}
	if !m.Known(tx) {
		return "unknown"
	}
	if !m.Live(tx) {
		return "ended"
	}
	return [...]string{"RU", "RC", "RR", "SER"}[m.LevelOf(tx)]
}

func (s *seqRun) fail(class, ctx, detail string) {
	if s.viol == nil {
		sig := s.c.Prop + "|" + class + "|" + ctx
		if s.c.Client != "" && s.c.Client != "inline" && s.c.Client != "grpcreal" {
			sig += ",client=" + s.c.Client
		}
		s.viol = &Violation{Class: class, Signature: sig, Detail: detail}
	}
}

func (s *seqRun) readBack(after Op, stepNo int) {
	if s.c.ReadBack == "none" || s.viol != nil {
		return
	}
	ids := []int{-1}
	if s.c.ReadBack == "all" {
		ids = append(ids, s.m.OpenTxs()...)
	}
	for _, id := range ids {
		if s.quiet[id] {
			continue
		}
		st, _ := s.a.store(id)
		for _, k := range s.c.Keys {
			if k == "" {
				continue
			}
			b, err := st.Get(s.w.Ctx, k)
			r := OpResult{Err: err, Class: classOf(err), Data: b}
			if cl, d := compareGet(s.m, id, k, r, s.idx); cl != "" {
				s.fail(cl, fmt.Sprintf("readback,actor=%s,after=%s/%s", actorName(s.m, id), after.K, actorName(s.m, after.tx())),
					fmt.Sprintf("after step %d (%s): read-back by %s (tx slot %d): %s", stepNo, after, actorName(s.m, id), id, d))
				return
			}
		}
		ks, err := st.GetKeys(s.w.Ctx)
		r := OpResult{Err: err, Class: classOf(err), Keys: ks}
		if cl, d := compareKeys(s.m, id, r); cl != "" {
			s.fail(cl, fmt.Sprintf("readback-keys,actor=%s,after=%s/%s", actorName(s.m, id), after.K, actorName(s.m, after.tx())),
				fmt.Sprintf("after step %d (%s): GetKeys by %s (tx slot %d): %s", stepNo, after, actorName(s.m, id), id, d))
			return
		}
	}
}

// step executes one op. It returns false when the run must stop.
func (s *seqRun) step(i int, o Op) bool {
	switch o.K {
	case "gc":
		n := o.N
		if n <= 0 {
			n = 1
		}
		for k := 0; k < n; k++ {
			if err := s.w.GCDirect(); err != nil {
				s.fail("error-class", "gc", fmt.Sprintf("step %d: the collector failed: %v", i, err))
				return false
			}
		}
		s.probes["gc-direct"]++
	case "gctimer":
		s.w.GCTimer()
		s.probes["gc-timer"]++
	case "beginbad":
		s.a.apply(s.w.Ctx, o)
		s.probes["begin-with-an-unknown-isolation-level"]++
	case "records":
		s.recordsStep(i, o)
	case "seqjump":
		// a burst of sequence numbers drawn by somebody else (the counter is shared by every database
		// of the process): nothing any reader sees may depend on how far the counter has moved
		sequence.VerifAdvance(uint64(o.Size))
		s.probes["sequence-jump"]++
	case "sleep":
		// (real time passes only for the real-gRPC client; the simulated clients have no idle timers)
	case "bg":
		simrt.Background(o.N)
	case "drain":
		s.w.Drain()
	case "copen":
		st, ok := s.a.store(o.tx())
		if !ok {
			break
		}
		f, err := st.Create(s.w.Ctx, o.Key)
		if err != nil {
			an := actorName(s.m, o.tx())
			s.fail("error-class", fmt.Sprintf("op=create,actor=%s", an), fmt.Sprintf("step %d (%s by %s): Create failed: %v", i, o, an, err))
			return false
		}
		hw := &heldWriter{f: f, op: o, rest: payload(o.ID, o.Size)}
		for k := 0; k < o.Pre && k < len(o.Writes) && hw.werr == nil; k++ {
			n := o.Writes[k]
			if _, err := hw.cb.write(f, hw.rest[:n]); err != nil {
				hw.werr = err
			}
			hw.rest = hw.rest[n:]
		}
		if s.writers == nil {
			s.writers = map[int]*heldWriter{}
		}
		s.writers[o.N] = hw
		s.probes["created-file-held-open"]++
	case "cclose":
		hw := s.writers[o.N]
		if hw == nil {
			break
		}
		delete(s.writers, o.N)
		for k := hw.op.Pre; k < len(hw.op.Writes) && hw.werr == nil; k++ {
			n := hw.op.Writes[k]
			if _, err := hw.cb.write(hw.f, hw.rest[:n]); err != nil {
				hw.werr = err
			}
			hw.rest = hw.rest[n:]
		}
		cerr := hw.f.Close()
		r := OpResult{Err: hw.werr}
		if r.Err == nil {
			r.Err = cerr
		}
		r.Class = classOf(r.Err)
		co := hw.op
		co.K = "create"
		an := actorName(s.m, co.tx())
		if r.Class == "ErrNoFreeSpace" && s.tightDisk() {
			// the simulated disk is (nearly) full: the write legitimately fails and is not applied
			s.faults["write-failed-no-free-space"]++
			s.idx.add(refmodel.Val{ID: co.ID, Size: co.Size})
		} else if cl, d := modelApply(s.m, co, r, s.idx); cl != "" {
			s.fail(cl, fmt.Sprintf("op=create,actor=%s,held", an), fmt.Sprintf("step %d (Close of the file created at an earlier step: %s by %s): %s", i, co, an, d))
			return false
		}
		s.states[s.m.StateHash()] = true
		s.probes["created-file-closed-after-later-operations"]++
	case "ropen":
		st, ok := s.a.store(o.tx())
		if !ok {
			break
		}
		an := actorName(s.m, o.tx())
		rc, err := st.GetReader(s.w.Ctx, o.Key)
		ans, want := s.m.Get(o.tx(), o.Key)
		if err != nil || want != refmodel.OK {
			r := OpResult{Err: err, Class: classOf(err)}
			if err == nil {
				r.Data, r.Err = readAllClose(rc)
				r.Class = classOf(r.Err)
			}
			if cl, d := compareGet(s.m, o.tx(), o.Key, r, s.idx); cl != "" {
				s.fail(cl, fmt.Sprintf("op=getr,actor=%s", an), fmt.Sprintf("step %d (%s by %s): %s", i, o, an, d))
				return false
			}
			break
		}
		if s.readers == nil {
			s.readers = map[int]*heldReader{}
		}
		s.readers[o.N] = &heldReader{rc: rc, ans: ans, key: o.Key, actor: an, openedAt: i}
		s.probes["reader-held-open"]++
	case "rread":
		hr := s.readers[o.N]
		if hr == nil {
			break
		}
		delete(s.readers, o.N)
		b, err := readAllClose(hr.rc)
		okv := false
		for _, a := range hr.ans {
			if !a.Deleted() && err == nil && len(b) == a.Size && bytes.Equal(b, contentOf(a)) {
				okv = true
			}
		}
		if !okv {
			got := s.idx.describe(b)
			if err != nil {
				got += fmt.Sprintf(" and the error %v", err)
			}
			s.fail("partial-or-mixed-content", "held-reader,actor="+hr.actor, fmt.Sprintf("step %d: the reader of %q handed out to %s at step %d (then: write #%d, %d bytes) delivered %s when it was read after %d further steps", i, hr.key, hr.actor, hr.openedAt, hr.ans[0].ID, hr.ans[0].Size, got, i-hr.openedAt))
			return false
		}
		s.probes["reader-read-after-later-operations"]++
	case "restart":
		s.w.Disk.FailMkdirs = 0 // (an armed directory-creation fault is not carried into Open)
		// a process boundary inside one process: close, the sequence counter of a fresh process, open
		if err := s.w.Close(); err != nil {
			s.fail("error-class", "close", fmt.Sprintf("step %d: Close failed: %v", i, err))
			return false
		}
		sequence.VerifReset(0)
		if err := s.w.Open(); err != nil {
			s.fail("reopen-differs", "open", fmt.Sprintf("step %d: Open after restart failed: %v", i, err))
			return false
		}
		s.a.db = s.w.DB
		s.m.Reopen()
		s.probes["restart"]++
	case "reopen":
		s.w.Disk.FailMkdirs = 0
		if o.N > 0 && o.N <= len(s.w.Roots) && len(s.w.Roots)-len(s.w.Dropped) > 1 && !s.w.Dropped[o.N-1] {
			// the database is opened again with one root fewer
			if s.w.Dropped == nil {
				s.w.Dropped = map[int]bool{}
			}
			s.w.Dropped[o.N-1] = true
			s.droppedFiles = map[string]bool{}
			files, _, _ := s.w.walkRoots()
			for _, f := range files {
				s.droppedFiles[f.Path] = true
			}
			s.probes["reopen-with-a-root-removed"]++
		}
		if err := s.w.Close(); err != nil {
			s.fail("error-class", "close", fmt.Sprintf("step %d: Close failed: %v", i, err))
			return false
		}
		if o.Pre == 1 && len(s.w.Roots) > 1 {
			// the same roots, listed in another order
			s.w.Reversed = !s.w.Reversed
			s.probes["reopen-with-the-roots-in-another-order"]++
		}
		if o.Size > 0 && uint64(o.Size) != s.w.Spec.MaxDirCount {
			// the database is opened again with another directory limit
			newLimit := o.Size
			if newLimit < 100 {
				newLimit = 100
			}
			if _, dirs, _ := s.w.walkRoots(); dirs != nil {
				s.grandfathered = map[string]int{}
				for d, n := range dirs {
					if n > newLimit {
						s.grandfathered[d] = n
					}
				}
			}
			s.w.Spec.MaxDirCount = uint64(o.Size)
			s.probes["reopen-with-another-directory-limit"]++
		}
		if err := s.w.Open(); err != nil {
			s.fail("reopen-differs", "open", fmt.Sprintf("step %d: Open after Close failed: %v", i, err))
			return false
		}
		s.a.db = s.w.DB
		s.m.Reopen()
		s.probes["reopen"]++
	default:
		for _, at := range s.c.MkdirFaultAt {
			if at == i {
				s.w.Disk.FailMkdirs++
			}
		}
		for _, at := range s.c.ReadDirFullAt {
			if at == i {
				limit := int(s.w.Spec.MaxDirCount)
				if limit < 100 {
					limit = 100
				}
				s.w.Disk.FullCount = limit
				s.w.Disk.FailReadDirsFull++
			}
		}
		mkdirErrs, readDirErrs := s.w.Disk.Stats.MkdirErrs, s.w.Disk.Stats.ReadDirErrs
		if o.K == "begin" && o.Quiet {
			if s.quiet == nil {
				s.quiet = map[int]bool{}
			}
			s.quiet[o.tx()] = true
			s.probes["transaction-left-alone-until-its-first-statement"]++
		} else if o.tx() >= 0 {
			delete(s.quiet, o.tx())
		}
		r := s.a.apply(s.w.Ctx, o)
		an := actorName(s.m, o.tx())
		mkdirFailed := s.w.Disk.Stats.MkdirErrs > mkdirErrs
		readDirFailed := s.w.Disk.Stats.ReadDirErrs > readDirErrs
		if o.Ctx == "dead" && r.Err != nil && (r.Class == "other" || r.Class == "ErrUnknown") && !s.faultAt(i) {
			// the call was made with a context that was already cancelled and was refused (the
			// external client fails fast): it must then have had no effect, which the read-backs
			// after this step and the rest of the history check against the unchanged model
			s.faults["dead-context-call-refused"]++
		} else if o.K == "setr" && o.Shape == "failing" {
			// the source reader failed part-way: the write fails (with the reader's error where the
			// caller's own process runs the copy and nothing else was wrong with the call) and is not
			// applied, whoever made it; the read-backs and the rest of the history check the rest
			s.faults["source-reader-failed-in-write"]++
			if o.ID != 0 {
				s.idx.add(refmodel.Val{ID: o.ID, Size: o.Size})
			}
			if r.Err == nil {
				s.fail("error-class", fmt.Sprintf("source-error-swallowed,op=%s,actor=%s", o.K, an), fmt.Sprintf("step %d (%s by %s): the source reader failed at offset %d of %d, the write returned nil", i, o, an, int((o.ID*7919)%uint64(o.Size+1)), o.Size))
				return false
			}
			if s.c.Client != "simgrpc" && s.c.Client != "grpcreal" && o.Key != "" && an != "ended" && an != "unknown" && o.Ctx != "dead" && !s.faultAt(i) && !mkdirFailed && !readDirFailed && !s.tightDisk() && !errors.Is(r.Err, errSource) {
				s.fail("error-class", fmt.Sprintf("wrong-class,op=%s,actor=%s", o.K, an), fmt.Sprintf("step %d (%s by %s): the source reader failed; the write returned %v, which does not wrap the reader's error", i, o, an, r.Err))
				return false
			}
		} else if readDirFailed && (o.K == "set" || o.K == "setr" || o.K == "create") && r.Class == "other" {
			// a directory could not be listed when this write chose its place: the write fails and is
			// not applied; nothing may have been put anywhere (the walk checks the limits)
			s.faults["readdir-of-a-full-directory-failed-in-write"]++
			if o.ID != 0 {
				s.idx.add(refmodel.Val{ID: o.ID, Size: o.Size})
			}
		} else if mkdirFailed && (o.K == "set" || o.K == "setr" || o.K == "create") && r.Class == "other" {
			// the directory this write needed could not be created: the write fails and is not
			// applied; the writes after it must work again
			s.faults["mkdir-failed-in-write"]++
			if o.ID != 0 {
				s.idx.add(refmodel.Val{ID: o.ID, Size: o.Size})
			}
		} else if o.K == "commit" && r.Class == "other" && s.faultAt(i) {
			// injected storage failure: the commit must fail as a whole
			s.m.CommitFailed(o.tx())
			s.faults["badger-update-failed-in-commit"]++
		} else if (o.K == "set" || o.K == "del" || o.K == "setr" || o.K == "create") && r.Class == "other" && s.faultAt(i) {
			s.faults["badger-update-failed-in-write"]++
			// the write failed: the model does not apply it
		} else if (o.K == "set" || o.K == "setr" || o.K == "create") && o.Key != "" && r.Class == "ErrNoFreeSpace" && s.tightDisk() {
			// the simulated disk is (nearly) full: the write legitimately fails and is not applied;
			// what C01 still demands is that every write reported successful reads back exactly
			s.faults["write-failed-no-free-space"]++
			if o.ID != 0 {
				s.idx.add(refmodel.Val{ID: o.ID, Size: o.Size})
			}
		} else if cl, d := modelApply(s.m, o, r, s.idx); cl != "" {
			s.fail(cl, fmt.Sprintf("op=%s,actor=%s", o.K, an), fmt.Sprintf("step %d (%s by %s): %s", i, o, an, d))
			return false
		}
		if o.Ctx == "dead" && r.Err == nil {
			s.probes["dead-context-call-served"]++
		}
		if o.Ctx == "percall" {
			s.faults["context-cancelled-after-return"]++
		}
		if an == "ended" || an == "unknown" {
			s.probes["late-call"]++
			if o.K == "create" && r.HandedOut && o.Ctx != "dead" {
				// every call through a finished transaction is refused - Create is a call: it must not
				// hand out a file whose Close then breaks the news
				s.fail("error-class", "late-create-handed-out-a-file,actor="+an, fmt.Sprintf("step %d (%s by %s): Create through a finished transaction returned a file (its Write/Close then said: %v); the call itself must return ErrTxNotFound", i, o, an, r.Err))
				return false
			}
		}
		if r.Class == "ErrTxSerialization" {
			s.probes["commit-conflict"]++
		}
		s.states[s.m.StateHash()] = true
	}
	if s.c.Walk == "shape" {
		s.walkShape(i, o)
	}
	if s.viol != nil {
		return false
	}
	switch o.K {
	case "bg", "gctimer", "ropen", "rread", "copen":
	default:
		s.readBack(o, i)
	}
	return s.viol == nil
}

func (s *seqRun) tightDisk() bool {
	for _, r := range s.c.World.Roots {
		if r.Reported > 0 {
			return true
		}
	}
	return false
}

func (s *seqRun) faultAt(i int) bool {
	for _, f := range s.c.FaultOps {
		if f == i {
			return true
		}
	}
	return false
}

func seqExec(c SeqCase, choices []int32) RunOut {
	s := &seqRun{c: c, m: refmodel.New(), idx: &valueIndex{}, states: map[uint64]bool{}, probes: map[string]uint64{},
		faults: map[string]uint64{}, dirSeenFull: map[string]bool{}, dirRegained: map[string]int{}, dirQuiesced: map[string]bool{}, writesSince: map[string]int{}, missLog: map[string]float64{}}
	cfg := c.Sched.config(choices)
	if cfg.Strategy == "" || cfg.Strategy == "uniform" {
		cfg.Strategy = "seqbg"
	}
	var infra string
	res := simrt.Run(cfg, func() {
		var w *World
		var err error
		if c.Dir != "" {
			w = worldAt(c.Dir, c.World, c.Sched.Seed+uint64(c.From)*7919, c.From == 0)
		} else {
			w, err = NewWorld(c.World, c.Sched.Seed)
			if err != nil {
				infra = "world: " + err.Error()
				return
			}
		}
		s.w = w
		if c.Fixture != "" && c.From == 0 {
			if err := s.loadFixture(c.Fixture); err != nil {
				infra = "fixture: " + err.Error()
				return
			}
		}
		if c.Corrupt != nil {
			s.corruptAndOpen(*c.Corrupt)
			return
		}
		if err := w.Open(); err != nil {
			if c.Fixture != "" || c.From > 0 {
				s.fail("reopen-differs", "open", "Open of the existing database directory failed: "+err.Error())
				simrt.Stop()
			}
			infra = "open: " + err.Error()
			return
		}
		s.a = &actors{db: w.DB, txs: map[int]fs_db.Tx{}}
		if c.Fixture != "" && c.From == 0 {
			// everything the writer acknowledged must be there before anything else happens
			s.readBack(Op{K: "open"}, -1)
			if s.viol != nil {
				s.viol.Class = "reopen-differs"
				s.viol.Signature = c.Prop + "|reopen-differs|fixture-open"
				simrt.Stop()
			}
		}
		s.a = &actors{db: w.DB, txs: map[int]fs_db.Tx{}}
		if c.Client == "simgrpc" && newSimGrpcClient != nil {
			s.a.db = newSimGrpcClient(w)
		}
		for i, o := range c.Ops {
			if i < c.From {
				s.modelOnly(o)
				continue
			}
			if c.To > 0 && i >= c.To {
				break
			}
			for _, f := range c.FaultOps {
				if f == i {
					// every Badger update of this op fails
					for k := uint64(1); k <= 8; k++ {
						if c.FaultLate {
							w.Badger.FailCommitAt[w.Badger.Updates+k] = true
						} else {
							w.Badger.FailUpdateAt[w.Badger.Updates+k] = true
						}
					}
				}
			}
			ok := s.step(i, o)
			for k := range w.Badger.FailUpdateAt {
				delete(w.Badger.FailUpdateAt, k)
			}
			for k := range w.Badger.FailCommitAt {
				delete(w.Badger.FailCommitAt, k)
			}
			if !ok {
				break
			}
		}
		if s.viol == nil && c.Walk == "final" {
			s.finalWalk()
		}
		if s.viol != nil {
			simrt.Stop() // the world is not wound down after a violation
		}
		// wind down: end transactions, close
		for _, hr := range s.readers {
			hr.rc.Close()
		}
		for _, hw := range s.writers {
			hw.f.Close()
		}
		for _, id := range s.m.OpenTxs() {
			s.a.txs[id].Rollback(w.Ctx)
		}
		if err := w.Close(); err != nil {
			s.fail("error-class", "close", "final Close failed: "+err.Error())
		}
	})
	if c.Fixture != "" {
		os.Chdir("/")
	}
	if s.w != nil && c.Dir == "" {
		s.w.Destroy()
	}
	out := RunOut{Steps: res.Steps, Switches: res.Switches, TimerFires: res.TimerFires, SimNs: res.SimTimeNs,
		TraceHash: res.TraceHash, SwitchHash: res.SwitchHash, Choices: res.Choices, Log: res.Log,
		Probes: s.probes, Faults: s.faults}
	if s.w != nil && s.w.Disk != nil {
		if n := s.w.Disk.Stats.ENOSPC; n > 0 {
			out.Faults["enospc"] += n
		}
	}
	for h := range s.states {
		out.States = append(out.States, h)
	}
	sort.Slice(out.States, func(i, j int) bool { return out.States[i] < out.States[j] })
	b, _ := json.Marshal(c.Ops)
	h := fnv.New64a()
	h.Write(b)
	out.CaseHash = h.Sum64() ^ res.SwitchHash
	out.NonTrivial = seqNonTrivial(c, s)
	out.Sample, _ = json.Marshal(map[string]any{"keys": c.Keys, "ops": opsSummary(c.Ops), "world": c.World, "steps": res.Steps})
	if infra != "" {
		out.Infra = infra
		out.MustExit = true
		return out
	}
	finishStatus(&out, res, c.Prop, s.viol, "seq")
	return out
}

// modelOnly advances the model over an operation that an earlier process executed.
func (s *seqRun) modelOnly(o Op) {
	switch o.K {
	case "restart", "reopen":
		s.m.Reopen()
	case "begin":
		s.m.Begin(o.tx(), refmodel.Level(o.Level))
	case "commit":
		s.m.Commit(o.tx())
	case "rollback":
		s.m.Rollback(o.tx())
	case "set", "setr", "create":
		v := refmodel.Val{ID: o.ID, Size: o.Size}
		s.idx.add(v)
		if o.K == "setr" && o.Shape == "failing" {
			break // its source failed: never applied
		}
		s.m.Set(o.tx(), o.Key, v)
	case "del":
		s.m.Delete(o.tx(), o.Key)
	}
}

func opsSummary(ops []Op) []string {
	var out []string
	for _, o := range ops {
		out = append(out, o.String())
	}
	if len(out) > 60 {
		out = append(out[:60], fmt.Sprintf("... %d more", len(ops)-60))
	}
	return out
}

// seqNonTrivial implements the per-property non-triviality rules for sequential histories.
func seqNonTrivial(c SeqCase, s *seqRun) bool {
	writes, overwrite, txs, gcs, late, reopen := 0, false, 0, 0, 0, 0
	seen := map[string]bool{}
	for _, o := range c.Ops {
		switch o.K {
		case "set", "setr", "create", "del":
			writes++
			if seen[o.Key] {
				overwrite = true
			}
			seen[o.Key] = true
		case "begin":
			txs++
		case "gc", "gctimer":
			gcs++
		case "reopen":
			reopen++
		}
	}
	late = int(s.probes["late-call"])
	switch c.Prop {
	case "C01":
		return overwrite
	case "C02":
		return txs >= 2 && writes >= 2
	case "C03":
		return txs >= 1 && writes >= 2
	case "C05":
		return reopen >= 1 && writes >= 1
	case "C09":
		return gcs >= 1 && overwrite
	case "C13":
		return late >= 1
	case "C14":
		return overwrite
	case "C17":
		return writes >= 100
	}
	return writes > 0
}

// finalWalk is C14's oracle: at exact quiescence after a collection pass the roots hold exactly
// one content file per readable key.
func (s *seqRun) finalWalk() {
	w := s.w
	for _, id := range s.m.OpenTxs() {
		// end every transaction (alternating commit / rollback was already generated; whatever is
		// still open is rolled back)
		r := s.a.apply(w.Ctx, Op{K: "rollback", Tx: id + 1})
		modelApply(s.m, Op{K: "rollback", Tx: id + 1}, r, s.idx)
	}
	w.Drain()
	if err := w.GCDirect(); err != nil {
		s.fail("error-class", "gc", "collector failed: "+err.Error())
		return
	}
	w.Drain()
	keys, err := w.DB.GetKeys(w.Ctx)
	if err != nil {
		s.fail("error-class", "final-keys", "GetKeys failed: "+err.Error())
		return
	}
	want := map[string]int{} // content hash -> count
	for _, k := range keys {
		b, err := w.DB.Get(w.Ctx, k)
		if err != nil {
			s.fail("missing-content", "final-get", fmt.Sprintf("GetKeys lists %q but Get fails: %v", k, err))
			return
		}
		want[string(b)]++
	}
	files, _, odd := w.walkRoots()
	if len(odd) > 0 {
		s.fail("dir-shape", "final-walk", strings.Join(odd, "; "))
		return
	}
	for _, f := range files {
		b, err := readFile(f.Path)
		if err != nil {
			s.fail("leaked-content", "unreadable", fmt.Sprintf("cannot read %s: %v", f.Path, err))
			return
		}
		if want[string(b)] == 0 {
			s.fail("leaked-content", "extra-file", fmt.Sprintf("at quiescence after a collection pass the roots hold %d files for %d readable keys; %s is %s and belongs to no readable key", len(files), len(keys), f.Path, s.idx.describe(b)))
			return
		}
		want[string(b)]--
	}
	for c, n := range want {
		if n > 0 {
			s.fail("missing-content", "no-file", fmt.Sprintf("a readable key has no content file on disk (%s)", s.idx.describe([]byte(c))))
			return
		}
	}
	s.probes["final-walk-files"] += uint64(len(files))
}

var _ = bytes.Equal

// recordsStep (C19): N version records with field values of every kind - transaction and content
// ids that are any canonical UUID (not only the version-4 ones the generator produces: the nil id,
// ids with leading or trailing zero bytes, all ones, time-based ones), any 64-bit sequence, keys
// of any bytes and length - are stored through the real file repository and read back with its
// scan; each must come back exactly as stored.
func (s *seqRun) recordsStep(i int, o Op) {
	repo := s.w.C.FileRepo()
	r := simrt.NewRand(o.ID).Derive("records")
	uuidOf := func(kind int) string {
		var b [16]byte
		for k := range b {
			b[k] = byte(r.Intn(256))
		}
		switch kind {
		case 0: // nil id
			b = [16]byte{}
		case 1: // a single non-zero byte somewhere
			b = [16]byte{}
			b[r.Intn(16)] = byte(1 + r.Intn(255))
		case 2: // eight leading zero bytes
			for k := 0; k < 8; k++ {
				b[k] = 0
			}
		case 3: // eight trailing zero bytes
			for k := 8; k < 16; k++ {
				b[k] = 0
			}
		case 4:
			for k := range b {
				b[k] = 0xff
			}
		case 5: // time-based layout (version 1)
			b[6] = (b[6] & 0x0f) | 0x10
			b[8] = (b[8] & 0x3f) | 0x80
		case 6: // version 4, as the generator makes them
			b[6] = (b[6] & 0x0f) | 0x40
			b[8] = (b[8] & 0x3f) | 0x80
		}
		return fmt.Sprintf("%x-%x-%x-%x-%x", b[0:4], b[4:6], b[6:8], b[8:10], b[10:16])
	}
	seqs := []uint64{0, 1, 255, 256, 1<<32 - 1, 1 << 32, 1<<56 - 1, 1 << 56, 1<<63 - 1, 1 << 63, 1<<64 - 1}
	want := map[string]model.File{}
	for k := 0; k < o.N; k++ {
		f := model.File{TxId: uuidOf(r.Intn(8)), ContentId: uuidOf(1 + r.Intn(7))}
		if _, dup := want[f.ContentId]; dup || f.ContentId == model.MainTxId {
			continue
		}
		if r.Intn(2) == 0 {
			f.Seq = sequence.Seq(seqs[r.Intn(len(seqs))])
		} else {
			f.Seq = sequence.Seq(r.Uint64())
		}
		kb := make([]byte, []int{0, 1, 2, 16, 40, 41, 300, 70000}[r.Pick(2, 3, 3, 3, 2, 2, 2, 1)])
		for j := range kb {
			kb[j] = byte(r.Intn(256))
		}
		f.Key = string(kb)
		switch r.Intn(12) {
		case 0: // a key that is, byte for byte, the raw form of this record's transaction id
			f.Key = string(rawUUID(f.TxId))
		case 1: // ... or its text form, or sixteen zero bytes (the raw form of the main id)
			f.Key = f.TxId
		case 2:
			f.Key = string(make([]byte, 16))
		case 3: // ... or the raw form of an id stored earlier
			for _, w := range want {
				f.Key = string(rawUUID(w.TxId))
				break
			}
		case 4, 5: // another version of a key a transaction stored already (same transaction id, same key)
			for _, w := range want {
				f.TxId, f.Key = w.TxId, w.Key
				break
			}
		}
		if err := repo.Set(s.w.Ctx, f); err != nil {
			s.fail("error-class", "record-set", fmt.Sprintf("step %d: storing the version record %s failed: %v", i, describeRecord(f), err))
			return
		}
		want[f.ContentId] = f
	}
	got, err := repo.GetAll(s.w.Ctx)
	if err != nil {
		s.fail("error-class", "record-scan", fmt.Sprintf("step %d: the scan over %d stored version records failed: %v", i, len(want), err))
		return
	}
	seen := 0
	for _, g := range got {
		w, ok := want[g.ContentId]
		if !ok {
			continue // records of the history itself
		}
		seen++
		if g.TxId != w.TxId || g.Seq != w.Seq || g.Key != w.Key {
			s.fail("value", "record-round-trip", fmt.Sprintf("step %d: stored %s, the scan returned %s", i, describeRecord(w), describeRecord(g)))
			return
		}
	}
	if seen != len(want) {
		s.fail("value", "record-lost", fmt.Sprintf("step %d: %d version records stored, the scan returned %d of them", i, len(want), seen))
		return
	}
	s.probes["version-records-round-tripped"] += uint64(seen)
}

func describeRecord(f model.File) string {
	k := f.Key
	if len(k) > 24 {
		k = k[:24] + fmt.Sprintf("...(%d bytes)", len(f.Key))
	}
	return fmt.Sprintf("{tx %s content %s seq %d key %q}", f.TxId, f.ContentId, uint64(f.Seq), k)
}

func rawUUID(s string) []byte {
	h := strings.ReplaceAll(s, "-", "")
	b := make([]byte, len(h)/2)
	for i := range b {
		fmt.Sscanf(h[2*i:2*i+2], "%02x", &b[i])
	}
	return b
}
