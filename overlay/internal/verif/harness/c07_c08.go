package harness

import (
	"fmt"
	"sort"
	"time"

	"github.com/anishathalye/porcupine"

	"github.com/glebziz/fs_db/internal/verif/simrt"
)

// ---- shared history vocabulary --------------------------------------------------------------------

// wEvent is a write that became (or could become) visible to others: an acknowledged autocommit
// write, or the last write of a key by a transaction whose Commit returned nil. Its visibility
// instant lies somewhere in [Start, End] (the autocommit call, resp. the Commit call).
type wEvent struct {
	Key    string
	ID     uint64 // 0 = delete
	Start  uint64
	End    uint64
	Group  int // transaction slot+1, 0 for autocommit
	Client int
}

type txInfo struct {
	slot     int
	level    int
	begin    *HEvent
	commit   *HEvent
	rollback *HEvent
	last     map[string]uint64 // key -> id of the last write (0 = delete)
	wrote    map[string]bool
	allIDs   map[uint64]bool
}

func analyse(cr *concRun) (txs map[int]*txInfo, events map[string][]wEvent, owner map[uint64]int) {
	txs = map[int]*txInfo{}
	events = map[string][]wEvent{}
	owner = map[uint64]int{} // write id -> tx slot+1 (0 autocommit)
	h := append([]HEvent(nil), cr.hist...)
	sort.Slice(h, func(i, j int) bool { return h[i].Call < h[j].Call })
	get := func(t int) *txInfo {
		if txs[t] == nil {
			txs[t] = &txInfo{slot: t, last: map[string]uint64{}, wrote: map[string]bool{}, allIDs: map[uint64]bool{}}
		}
		return txs[t]
	}
	for i := range h {
		e := &h[i]
		o := e.Op
		switch o.K {
		case "begin":
			t := get(o.Tx)
			t.begin, t.level = e, o.Level
		case "commit":
			get(o.Tx).commit = e
		case "rollback":
			get(o.Tx).rollback = e
		case "set", "setr", "create", "del":
			if e.Class != "" {
				continue
			}
			if o.ID != 0 {
				owner[o.ID] = o.Tx
			}
			if o.Tx == 0 {
				events[o.Key] = append(events[o.Key], wEvent{Key: o.Key, ID: o.ID, Start: e.Call, End: e.Ret, Client: e.Client})
			} else {
				t := get(o.Tx)
				t.last[o.Key] = o.ID
				t.wrote[o.Key] = true
				if o.ID != 0 {
					t.allIDs[o.ID] = true
				}
			}
		}
	}
	for _, t := range txs {
		if t.commit != nil && t.commit.Class == "" {
			for k, id := range t.last {
				events[k] = append(events[k], wEvent{Key: k, ID: id, Start: t.commit.Call, End: t.commit.Ret, Group: t.slot, Client: t.commit.Client})
			}
		}
	}
	return
}

func intersect(a, b map[string]bool) []string {
	var ks []string
	for k := range a {
		if b[k] {
			ks = append(ks, k)
		}
	}
	sort.Strings(ks)
	return ks
}

// ---- C07 ------------------------------------------------------------------------------------------

func genC07(r *simrt.Rand, idx int, tier string) ConcCase {
	c := ConcCase{Prop: "C07", Final: true}
	c.World = genConcWorld(r)
	c.Keys = genKeys(r, 2, 3)
	id := uint64(0)
	// one program in seven starts on a database that has never published anything: the
	// commits of the concurrent phase are the first writes it sees
	fresh := idx%7 == 3
	for _, k := range c.Keys {
		id++
		if !fresh {
			c.Init = append(c.Init, Op{K: "set", Key: k, ID: id, Size: smallSize(r)})
		}
	}
	if idx%5 == 4 {
		// small: one or two snapshot transactions have already written the hot key and only commit
		// in the concurrent phase; one or two others begin meanwhile, read the key, write it, commit.
		// Whatever instant a commit takes effect at, a transaction that read the old value afterwards
		// began before that instant and must be refused.
		hot := c.Keys[0]
		nt := 1 + r.Intn(2)
		for t := 1; t <= nt; t++ {
			id++
			c.Init = append(c.Init, Op{K: "begin", Tx: t, Level: 2 + r.Intn(2)}, Op{K: "set", Tx: t, Key: hot, ID: id, Size: 9 + r.Intn(40)})
		}
		for t := 1; t <= nt; t++ {
			ops := []Op{{K: "commit", Tx: t}}
			if r.Intn(3) == 0 {
				ops = append([]Op{{K: "yield", N: r.Intn(20)}}, ops...)
			}
			c.Clients = append(c.Clients, ops)
		}
		for l := 0; l < 1+r.Intn(2); l++ {
			tx := nt + 1 + l
			id++
			c.Clients = append(c.Clients, []Op{{K: "yield", N: r.Intn(30)}, {K: "begin", Tx: tx, Level: 2 + r.Intn(2)}, {K: "get", Tx: tx, Key: hot},
				{K: "set", Tx: tx, Key: hot, ID: id, Size: 9 + r.Intn(40)}, {K: "commit", Tx: tx}})
		}
		c.Sched = genSched(r, 300)
		c.Sched.MaxSteps = 600_000
		return c
	}
	nt := 2 + r.Intn(2)
	for t := 1; t <= nt; t++ {
		c.Init = append(c.Init, Op{K: "begin", Tx: t, Level: 2 + r.Intn(2)})
	}
	if idx%6 == 1 {
		// the transactions sit idle after their Begin while the rest of the process draws a few
		// thousand (or a million) sequence numbers; their first statements come afterwards
		c.Init = append(c.Init, Op{K: "seqjump", Size: []int{1025, 5000, 1<<20 + 1}[r.Intn(3)]})
	}
	hot := c.Keys[r.Intn(len(c.Keys))]
	for t := 1; t <= nt; t++ {
		var ops []Op
		if r.Intn(3) == 0 {
			ops = append(ops, Op{K: "yield", N: r.Intn(40)})
		}
		for k := 0; k < 1+r.Intn(3); k++ {
			key := hot
			if r.Intn(3) == 0 {
				key = c.Keys[r.Intn(len(c.Keys))]
			}
			if r.Intn(6) == 0 {
				ops = append(ops, Op{K: "del", Tx: t, Key: key})
			} else {
				id++
				ops = append(ops, Op{K: "set", Tx: t, Key: key, ID: id, Size: smallSize(r)})
			}
		}
		ops = append(ops, Op{K: "commit", Tx: t})
		c.Clients = append(c.Clients, ops)
	}
	if r.Intn(2) == 0 {
		var ops []Op
		for k := 0; k < 1+r.Intn(3); k++ {
			if r.Intn(3) == 0 {
				ops = append(ops, Op{K: "yield", N: r.Intn(60)})
			}
			key := hot
			if r.Intn(3) == 0 {
				key = c.Keys[r.Intn(len(c.Keys))]
			}
			id++
			ops = append(ops, Op{K: "set", Key: key, ID: id, Size: smallSize(r)})
		}
		c.Clients = append(c.Clients, ops)
	}
	for late := 0; late < 2 && r.Intn(2) == 0; late++ {
		// a snapshot transaction that begins while the others are committing: reads the hot key,
		// writes it, commits (judged by the linearizability fallback: its Begin either precedes a
		// commit - then its own Commit must fail - or follows it - then it must read the new value)
		tx := nt + 1 + late
		ops := []Op{{K: "yield", N: r.Intn(120)}, {K: "begin", Tx: tx, Level: 2 + r.Intn(2)}, {K: "get", Tx: tx, Key: hot}}
		id++
		ops = append(ops, Op{K: "set", Tx: tx, Key: hot, ID: id, Size: smallSize(r)}, Op{K: "commit", Tx: tx})
		c.Clients = append(c.Clients, ops)
	}
	if r.Intn(4) == 0 {
		c.Clients = append(c.Clients, []Op{{K: "gc"}, {K: "gctimer"}})
	}
	c.Sched = genSched(r, 700)
	c.Sched.MaxSteps = 600_000
	return c
}

func checkC07(c ConcCase, cr *concRun, out *RunOut) *Violation {
	txs, events, owner := analyse(cr)
	var slots []int
	for s, t := range txs {
		if t.begin == nil || t.commit == nil {
			continue
		}
		slots = append(slots, s)
	}
	sort.Ints(slots)
	for _, s := range slots {
		t := txs[s]
		if t.commit.Class != "" && t.commit.Class != "ErrTxSerialization" {
			return &Violation{Class: "error-class", Signature: "C07|error-class|commit|" + t.commit.Class,
				Detail: fmt.Sprintf("Commit of transaction %d failed with %s", s, t.commit.Err)}
		}
	}
	// at most one winner among overlapping snapshot writers of one key
	for i, a := range slots {
		for _, b := range slots[i+1:] {
			ta, tb := txs[a], txs[b]
			ks := intersect(ta.wrote, tb.wrote)
			if len(ks) == 0 {
				continue
			}
			// both began before either commits (true by construction; checked anyway)
			if !(ta.begin.Ret < tb.commit.Call && tb.begin.Ret < ta.commit.Call) {
				continue
			}
			out.Probes["overlapping-snapshot-writer-pairs"]++
			if ta.commit.Call < tb.commit.Ret && tb.commit.Call < ta.commit.Ret {
				out.Probes["commit-overlapped-another-commit"]++
			}
			if ta.commit.Class == "" && tb.commit.Class == "" {
				return &Violation{Class: "two-winners", Signature: "C07|two-winners",
					Detail: fmt.Sprintf("snapshot transactions %d and %d both began before either committed, both wrote %q, and both Commit calls returned nil ([%d..%d] and [%d..%d])",
						a, b, ks, ta.commit.Call, ta.commit.Ret, tb.commit.Call, tb.commit.Ret)}
			}
		}
	}
	for _, s := range slots {
		t := txs[s]
		// a write certainly committed between Begin and the Commit call forces failure
		for k := range t.wrote {
			for _, e := range events[k] {
				if e.Group == s {
					continue
				}
				if e.Start > t.begin.Ret && e.End < t.commit.Call && t.commit.Class == "" {
					return &Violation{Class: "missed-conflict", Signature: "C07|missed-conflict",
						Detail: fmt.Sprintf("transaction %d (began [%d..%d]) wrote %q; another value (#%d) was committed to that key in [%d..%d], entirely between its Begin and its Commit call [%d..%d], yet Commit returned nil",
							s, t.begin.Call, t.begin.Ret, k, e.ID, e.Start, e.End, t.commit.Call, t.commit.Ret)}
				}
			}
		}
		// a loser needs a reason: some other value possibly committed to one of its keys after it began
		if t.commit.Class == "ErrTxSerialization" {
			justified := false
			for k := range t.wrote {
				for _, e := range events[k] {
					if e.Group != s && e.End > t.begin.Call && e.Start < t.commit.Ret {
						justified = true
					}
				}
			}
			if !justified {
				return &Violation{Class: "unjustified-abort", Signature: "C07|unjustified-abort",
					Detail: fmt.Sprintf("Commit of transaction %d failed with ErrTxSerialization although no other value was committed to any key it wrote after it began", s)}
			}
		}
	}
	// final state: no loser's value, no certainly-superseded value
	for _, e := range cr.hist {
		if e.Client != 0 || e.Op.K != "get" || e.Call < lastClientRet(cr) {
			continue
		}
		k := e.Op.Key
		if e.Foreign != "" {
			return &Violation{Class: "partial-or-mixed-content", Signature: "C07|partial-or-mixed-content", Detail: fmt.Sprintf("final Get(%q) returned %s", k, e.Foreign)}
		}
		var cur *wEvent
		if e.Class == "" {
			if g, ok := owner[e.ValID]; ok && g != 0 {
				t := txs[g]
				if t == nil || t.commit == nil || t.commit.Class != "" {
					return &Violation{Class: "loser-visible", Signature: "C07|loser-visible",
						Detail: fmt.Sprintf("after quiescence key %q holds value #%d written by transaction %d, whose Commit did not succeed", k, e.ValID, g)}
				}
				if t.last[k] != e.ValID {
					return &Violation{Class: "value", Signature: "C07|not-last-write",
						Detail: fmt.Sprintf("after quiescence key %q holds value #%d, which is not the last value transaction %d wrote to it (#%d)", k, e.ValID, g, t.last[k])}
				}
			}
			for i := range events[k] {
				if events[k][i].ID == e.ValID {
					cur = &events[k][i]
				}
			}
		} else if e.Class == "ErrNotFound" {
			for i := range events[k] {
				if events[k][i].ID == 0 {
					cur = &events[k][i] // some delete
				}
			}
			if cur == nil && len(events[k]) == 0 {
				continue // never written (the program started on an empty database): not found is right
			}
			if cur == nil {
				return &Violation{Class: "lost-write", Signature: "C07|final-missing",
					Detail: fmt.Sprintf("after quiescence key %q is not found although it was written and never deleted", k)}
			}
			// with several deletes any of them may be last; take the latest
			for i := range events[k] {
				if events[k][i].ID == 0 && events[k][i].End > cur.End {
					cur = &events[k][i]
				}
			}
		} else {
			return &Violation{Class: "error-class", Signature: "C07|error-class|final-get", Detail: fmt.Sprintf("final Get(%q) failed: %s", k, e.Err)}
		}
		if cur == nil {
			continue
		}
		for _, o := range events[k] {
			if o.Start > cur.End && (o.ID != cur.ID || o.ID == 0) && !(o.ID == 0 && cur.ID == 0) {
				what := fmt.Sprintf("value #%d", o.ID)
				if o.ID == 0 {
					what = "a delete"
				}
				return &Violation{Class: "lost-write", Signature: "C07|lost-write",
					Detail: fmt.Sprintf("after quiescence key %q holds the write visible in [%d..%d] (#%d), but %s was committed strictly later ([%d..%d]) and is lost", k, cur.Start, cur.End, cur.ID, what, o.Start, o.End)}
			}
		}
	}
	return linFallback("C07", cr, out)
}

func lastClientRet(cr *concRun) uint64 {
	var m uint64
	for _, e := range cr.hist {
		if e.Client != 0 && e.Ret > m {
			m = e.Ret
		}
	}
	return m
}

// ---- C08 ------------------------------------------------------------------------------------------

func genC08(r *simrt.Rand, idx int, tier string) ConcCase {
	c := ConcCase{Prop: "C08", Final: true}
	c.World = genConcWorld(r)
	c.Keys = genKeys(r, 2, 3)
	id := uint64(0)
	for _, k := range c.Keys {
		id++
		c.Init = append(c.Init, Op{K: "set", Key: k, ID: id, Size: smallSize(r)})
		if r.Intn(3) == 0 {
			id++
			c.Init = append(c.Init, Op{K: "set", Key: k, ID: id, Size: smallSize(r)})
		}
	}
	tx := 0
	// committers: unique values to >= 2 keys, all committed together
	for n := 0; n < 1+r.Intn(2); n++ {
		var ops []Op
		for round := 0; round < 1+r.Intn(2); round++ {
			tx++
			ops = append(ops, Op{K: "begin", Tx: tx, Level: r.Intn(2)})
			p := r.Perm(len(c.Keys))
			nk := 2
			if len(c.Keys) > 2 && r.Intn(2) == 0 {
				nk = 3
			}
			for _, ki := range p[:nk] {
				id++
				ops = append(ops, Op{K: "set", Tx: tx, Key: c.Keys[ki], ID: id, Size: smallSize(r)})
			}
			ops = append(ops, Op{K: "commit", Tx: tx})
		}
		c.Clients = append(c.Clients, ops)
	}
	// snapshot readers that begin during the concurrent phase and read everything twice
	for n := 0; n < 1+r.Intn(2); n++ {
		var ops []Op
		if r.Intn(2) == 0 {
			ops = append(ops, Op{K: "yield", N: r.Intn(80)})
		}
		tx++
		ops = append(ops, Op{K: "begin", Tx: tx, Level: 2 + r.Intn(2)})
		for pass := 0; pass < 2; pass++ {
			for _, k := range c.Keys {
				ops = append(ops, Op{K: "get", Tx: tx, Key: k})
			}
			ops = append(ops, Op{K: "keys", Tx: tx})
			if pass == 0 && r.Intn(2) == 0 {
				ops = append(ops, Op{K: "yield", N: r.Intn(120)})
			}
		}
		ops = append(ops, Op{K: "rollback", Tx: tx})
		c.Clients = append(c.Clients, ops)
	}
	if r.Intn(2) == 0 {
		var ops []Op
		for k := 0; k < 1+r.Intn(3); k++ {
			if idx%3 == 1 && r.Intn(3) == 0 {
				// an autocommit Delete under the readers' feet (the version it supersedes is what a
				// snapshot begun earlier still reads)
				ops = append(ops, Op{K: "del", Key: c.Keys[r.Intn(len(c.Keys))]}, Op{K: "drain"})
				continue
			}
			id++
			ops = append(ops, Op{K: "set", Key: c.Keys[r.Intn(len(c.Keys))], ID: id, Size: smallSize(r)})
		}
		c.Clients = append(c.Clients, ops)
	}
	if r.Intn(2) == 0 {
		var ops []Op
		for k := 0; k < 1+r.Intn(3); k++ {
			switch r.Intn(3) {
			case 0:
				ops = append(ops, Op{K: "gc"})
			case 1:
				ops = append(ops, Op{K: "gctimer"})
			default:
				ops = append(ops, Op{K: "yield", N: r.Intn(40)})
			}
		}
		if idx%4 == 2 {
			// seconds pass before the collector looks again (whoever is in the middle of something
			// stays there meanwhile)
			ops = append(ops, Op{K: "advance", N: 1100 + r.Intn(3000)}, Op{K: "gc"})
		}
		if r.Intn(4) == 0 {
			// in between, the shared counter leaps ahead (other traffic in the process)
			ops = append(ops, Op{K: "seqjump", Size: []int{1<<20 + 1, 1 << 21, 1 << 32}[r.Intn(3)]}, Op{K: "gc"})
		}
		c.Clients = append(c.Clients, ops)
	}
	if r.Intn(3) == 0 {
		// other transactions beginning and ending (they change which transaction is "oldest")
		tx++
		c.Clients = append(c.Clients, []Op{{K: "begin", Tx: tx, Level: r.Intn(4)}, {K: "yield", N: r.Intn(50)}, {K: "rollback", Tx: tx}})
	}
	c.Sched = genSched(r, 900)
	c.Sched.MaxSteps = 600_000
	return c
}

func checkC08(c ConcCase, cr *concRun, out *RunOut) *Violation {
	txs, events, owner := analyse(cr)
	var slots []int
	for s, t := range txs {
		if t.level >= 2 && t.begin != nil {
			slots = append(slots, s)
		}
	}
	sort.Ints(slots)
	find := func(k string, id uint64) *wEvent {
		for i := range events[k] {
			if events[k][i].ID == id {
				return &events[k][i]
			}
		}
		return nil
	}
	for _, s := range slots {
		t := txs[s]
		bc, br := t.begin.Call, t.begin.Ret
		// was this Begin concurrent with a multi-key commit?
		for _, o := range txs {
			if o.commit != nil && len(o.last) >= 2 && o.commit.Call < br && bc < o.commit.Ret {
				out.Probes["begin-overlapped-a-multi-key-commit"]++
			}
		}
		reads := map[string][]HEvent{}
		var keysReads []HEvent
		for _, e := range cr.hist {
			if e.Op.Tx != s {
				continue
			}
			switch e.Op.K {
			case "get", "getr":
				reads[e.Op.Key] = append(reads[e.Op.Key], e)
			case "keys":
				keysReads = append(keysReads, e)
			}
		}
		seen := map[string]*wEvent{}
		for _, k := range c.Keys {
			rs := reads[k]
			sort.Slice(rs, func(i, j int) bool { return rs[i].Call < rs[j].Call })
			for i, e := range rs {
				if e.Foreign != "" {
					return &Violation{Class: "partial-or-mixed-content", Signature: "C08|partial-or-mixed-content", Detail: fmt.Sprintf("snapshot transaction %d: Get(%q) returned %s", s, k, e.Foreign)}
				}
				if e.Class != "" && e.Class != "ErrNotFound" {
					return &Violation{Class: "error-class", Signature: "C08|error-class|get|" + e.Class, Detail: fmt.Sprintf("snapshot transaction %d: Get(%q) failed: %s", s, k, e.Err)}
				}
				// stability: a key the transaction has not written reads the same for as long as it is open
				if i > 0 && (rs[0].Class != e.Class || rs[0].ValID != e.ValID) {
					return &Violation{Class: "unstable-read", Signature: "C08|unstable-read",
						Detail: fmt.Sprintf("snapshot transaction %d (began [%d..%d]) read key %q twice: first %s at [%d..%d], then %s at [%d..%d]", s, bc, br, k, readStr(rs[0]), rs[0].Call, rs[0].Ret, readStr(e), e.Call, e.Ret)}
				}
				if i > 0 {
					continue
				}
				if e.Class == "ErrNotFound" {
					// "not found" needs a Delete that may have taken effect before Begin returned and that
					// no value written strictly after it and strictly before Begin was invoked supersedes;
					// without one, a key written before Begin was invoked must be found
					justified := false
					for _, d := range events[k] {
						if d.ID != 0 || d.Start > br {
							continue
						}
						superseded := false
						for _, o := range events[k] {
							if o.ID != 0 && o.Start > d.End && o.End < bc {
								superseded = true
							}
						}
						if !superseded {
							justified = true
						}
					}
					for _, w := range events[k] {
						if !justified && w.ID != 0 && w.End < bc {
							return &Violation{Class: "missing-present-key", Signature: "C08|snapshot-missing-key",
								Detail: fmt.Sprintf("snapshot transaction %d (began [%d..%d]): Get(%q) = ErrNotFound (%s) although value #%d was committed in [%d..%d], before Begin was invoked, and no Delete that could have taken effect before Begin returned explains it", s, bc, br, k, e.Err, w.ID, w.Start, w.End)}
						}
					}
					continue
				}
				if g, ok := owner[e.ValID]; ok && g != 0 {
					o := txs[g]
					if o == nil || o.commit == nil || o.commit.Class != "" || o.commit.Call > e.Ret {
						return &Violation{Class: "uncommitted-visible", Signature: "C08|dirty-read",
							Detail: fmt.Sprintf("snapshot transaction %d read value #%d of key %q at [%d..%d], written by transaction %d which had not (successfully) committed by then", s, e.ValID, k, e.Call, e.Ret, g)}
					}
				}
				w := find(k, e.ValID)
				if w == nil {
					return &Violation{Class: "value", Signature: "C08|unexplained-value", Detail: fmt.Sprintf("snapshot transaction %d read value #%d of key %q which no visible write produced", s, e.ValID, k)}
				}
				seen[k] = w
				if w.Start > br {
					return &Violation{Class: "stale-snapshot", Signature: "C08|snapshot-from-future",
						Detail: fmt.Sprintf("snapshot transaction %d (Begin returned at %d) read value #%d of key %q whose commit was invoked only at %d", s, br, w.ID, k, w.Start)}
				}
				for _, o := range events[k] {
					if o.ID != w.ID && o.Start > w.End && o.End < bc {
						return &Violation{Class: "stale-snapshot", Signature: "C08|stale-snapshot",
							Detail: fmt.Sprintf("snapshot transaction %d (Begin invoked at %d) read value #%d of key %q (visible since [%d..%d]) although value #%d was committed strictly later ([%d..%d]) and strictly before Begin was invoked", s, bc, w.ID, k, w.Start, w.End, o.ID, o.Start, o.End)}
					}
				}
			}
		}
		// GetKeys stability
		for i := 1; i < len(keysReads); i++ {
			if fmt.Sprint(keysReads[0].Keys) != fmt.Sprint(keysReads[i].Keys) || keysReads[0].Class != keysReads[i].Class {
				return &Violation{Class: "unstable-read", Signature: "C08|unstable-keys",
					Detail: fmt.Sprintf("snapshot transaction %d: GetKeys returned %q (%s) and later %q (%s)", s, keysReads[0].Keys, keysReads[0].Class, keysReads[i].Keys, keysReads[i].Class)}
			}
		}
		// atomic visibility: of every other transaction's commit either all writes or none
		for g, o := range txs {
			if g == s || o.commit == nil || o.commit.Class != "" || len(o.last) < 2 {
				continue
			}
			var sawKey, oldKey string
			var old *wEvent
			for k, id := range o.last {
				w := seen[k]
				if w == nil {
					continue
				}
				if w.Group == g && w.ID == id {
					sawKey = k
				} else if w.End < o.commit.Call {
					oldKey, old = k, w
				}
			}
			if sawKey != "" && oldKey != "" {
				return &Violation{Class: "fractured-snapshot", Signature: "C08|fractured-snapshot",
					Detail: fmt.Sprintf("snapshot transaction %d (began [%d..%d]) sees transaction %d's commit ([%d..%d]) on key %q but, on key %q which that commit also wrote, still reads value #%d whose write was acknowledged at %d, before that Commit was invoked",
						s, bc, br, g, o.commit.Call, o.commit.Ret, sawKey, oldKey, old.ID, old.End)}
			}
		}
	}
	return linFallback("C08", cr, out)
}

// linFallback: after the interval rules, the whole history (snapshot transactions included) is
// checked for a linearization against the reference model: Begin, every read and Commit take
// effect atomically at some instant between call and return. The interval rules give the
// precise class; this catches what they do not name.
func linFallback(prop string, cr *concRun, out *RunOut) *Violation {
	if len(cr.hist) > 40 {
		out.Probes["lin-fallback-skipped-long-history"]++
		return nil
	}
	ops := make([]porcupine.Operation, 0, len(cr.hist))
	for _, e := range cr.hist {
		ops = append(ops, porcupine.Operation{ClientId: e.Client, Input: e.Op, Call: int64(e.Call), Output: e, Return: int64(e.Ret)})
	}
	switch porcupine.CheckOperationsTimeout(linModel, ops, 2*time.Second) {
	case porcupine.Illegal:
		return &Violation{Class: "lin-illegal", Signature: prop + "|lin-illegal", Detail: "the recorded history (snapshot transactions included) has no linearization consistent with the reference model"}
	case porcupine.Unknown:
		out.Inconclusive = "porcupine-timeout"
	}
	return nil
}

func readStr(e HEvent) string {
	if e.Class != "" {
		return e.Class
	}
	return fmt.Sprintf("value #%d", e.ValID)
}

func init() {
	Register(propConc{id: "C07",
		rule: "cases: 2-3 RepeatableRead/Serializable transactions begun sequentially before the concurrent phase, each owned by one client that writes 1-3 values (2/3 of them to one hot key) and commits, all concurrently (every 6th program: after the Begins the shared sequence counter leaps by 1025 ... 2^20 before anybody's first statement), plus optionally an autocommit writer on the same keys and a collector actor; seeded schedule (uniform/PCT); oracle over the call/return history: two overlapping snapshot writers of one key never both succeed, a write committed entirely between Begin and the Commit call forces ErrTxSerialization, a failed Commit is justified by some possibly-concurrent committed write, after quiescence no key holds a loser's value nor a value certainly superseded by a later acknowledged write; non-trivial = two clients' operations overlapped (a Commit overlapping another client's operation)",
		runs: [2]int{12000, 250000}, gen: genC07, check: checkC07})
	Register(propConc{id: "C08",
		rule: "cases: 1-2 snapshot readers that Begin during the concurrent phase and read every key and GetKeys twice, 1-2 committers each committing unique values to 2-3 keys at once (1-2 rounds), optional autocommit writer, collector actor (direct and GC timer) and other transactions beginning/ending; seeded schedule (uniform/PCT); oracle: interval rules over call/return event numbers only - atomic visibility (a reader that sees one write of a commit does not read, on another key of that commit, a value acknowledged before the Commit was invoked), snapshot validity (the value read was committed no later than Begin returned and is not certainly superseded before Begin was invoked; a present key is found), no dirty read, repeatable read of every key and of GetKeys; non-trivial = operations of different clients overlapped",
		runs: [2]int{10000, 250000}, gen: genC08, check: checkC08})
}
