// Package harness holds the per-property workloads and oracles and the driver that runs them
// as seeded simulated executions (see /verif/DESIGN.md).
package harness

import (
	"bufio"
	"encoding/json"
	"fmt"
	"os"
	"os/exec"
	"path/filepath"
	"sort"
	"strconv"
	"strings"
	"sync"
	"time"

	"github.com/glebziz/fs_db/internal/verif/simrt"
)

// Violation is one observed breach of a property.
type Violation struct {
	Class     string `json:"class"`     // from the closed list in DESIGN.md §7
	Signature string `json:"signature"` // class + what survives minimisation; matched against known findings
	Detail    string `json:"detail"`
}

// RunOut is the outcome of one simulated execution.
type RunOut struct {
	Index        int               `json:"i"`
	Seed         uint64            `json:"seed"`
	Violation    *Violation        `json:"violation,omitempty"`
	Inconclusive string            `json:"inconclusive,omitempty"`
	Infra        string            `json:"infra,omitempty"`
	NonTrivial   bool              `json:"nt,omitempty"`
	CaseHash     uint64            `json:"h,omitempty"`
	Steps        uint64            `json:"steps,omitempty"`
	Switches     uint64            `json:"sw,omitempty"`
	TimerFires   uint64            `json:"tf,omitempty"`
	SimNs        int64             `json:"simns,omitempty"`
	TraceHash    uint64            `json:"trace,omitempty"`
	SwitchHash   uint64            `json:"swh,omitempty"`
	Faults       map[string]uint64 `json:"faults,omitempty"`
	Probes       map[string]uint64 `json:"probes,omitempty"`
	States       []uint64          `json:"states,omitempty"`
	Sample       json.RawMessage   `json:"sample,omitempty"`
	Case         json.RawMessage   `json:"case,omitempty"`
	Choices      []int32           `json:"choices,omitempty"`
	MustExit     bool              `json:"mustexit,omitempty"`
	Log          []string          `json:"log,omitempty"`
	Extra        int               `json:"extra,omitempty"`   // additional evaluations performed inside this run (e.g. crash points)
	Also         []Violation       `json:"also,omitempty"`    // further, different violations observed in the same run
	InnerNT      []uint64          `json:"innernt,omitempty"` // hashes of the non-trivial inner evaluations (distinct cases inside one run)
}

// Property is one registered check.
type Property interface {
	ID() string
	Level() string // exploration | fault_enumeration
	Rule() string
	Assumptions() []string
	RealStub() map[string]string
	// Runs returns how many executions the tier asks for.
	Runs(tier string) int
	// Gen produces the case for run idx (everything the run depends on, JSON-serialisable).
	Gen(r *simrt.Rand, idx int, tier string) any
	// Exec runs a case; if choices is non-nil the schedule is replayed from it.
	Exec(c any, choices []int32) RunOut
	// Decode parses a case written by Gen (replay files).
	Decode(b json.RawMessage) (any, error)
	// Shrink proposes smaller variants of a failing case (may return nil).
	Shrink(c any) []any
}

var registry = map[string]Property{}

// requiredProbes: conditions that must have been reached at least once in a thorough run.
var requiredProbes = map[string][]string{
	"C04": {"kill-inside-commit", "kill-with-torn-write", "kill-inside-recovery", "kill-with-two-operations-in-flight"},
	"C05": {"reopen", "process-boundary", "open-while-another-is-open"},
	"C06": {"overlapping-op-pairs", "timer-fired-during-run"},
	"C07": {"commit-overlapped-another-commit"},
	"C08": {"begin-overlapped-a-multi-key-commit"},
	"C09": {"gc-direct"},
	"C10": {"retry-on-another-root-succeeded", "enospc-after-partial-write", "abort-after-server-completed", "fault-fired:cut", "fault-fired:cancel", "fault-fired:reader"},
	"C13": {"late-call", "unknown-tx-cases"},
	"C16": {"send-timeout-fired", "seqlife-runs", "liferace-runs"},
	"C17": {"dir-full", "dir-reused", "reopen"},
	"C19": {"restart", "process-boundary", "open-rejected-corrupt-record"},
}

func Register(p Property) { registry[p.ID()] = p }

func Lookup(id string) Property { return registry[id] }

func IDs() []string {
	var ids []string
	for k := range registry {
		ids = append(ids, k)
	}
	sort.Strings(ids)
	return ids
}

// caseSeed derives the per-run seed from VERIF_SEED.
func caseSeed(seed uint64, prop string, idx int) uint64 {
	h := seed
	for i := 0; i < len(prop); i++ {
		h = simrt.Mix(h ^ uint64(prop[i]))
	}
	return simrt.Mix(h ^ uint64(idx)*0x9E3779B97F4A7C15)
}

// RunIndex generates and executes run idx of a property.
func RunIndex(p Property, seed uint64, idx int, tier string) RunOut {
	cs := caseSeed(seed, p.ID(), idx)
	c := p.Gen(simrt.NewRand(cs), idx, tier)
	if f := os.Getenv("VERIF_DUMPCASE"); f != "" {
		b, _ := json.Marshal(c)
		os.WriteFile(f, b, 0o644) // debugging aid for `fsim one`
	}
	out := p.Exec(c, nil)
	out.Index = idx
	out.Seed = cs
	if out.Violation != nil || out.Infra != "" {
		b, _ := json.Marshal(c)
		out.Case = b
	} else {
		out.Choices = nil
		out.Log = nil
	}
	return out
}

// ---- worker ----------------------------------------------------------------------------------

// Worker executes runs from, from+stride, ... < n and writes one JSON line per run to w.
func Worker(p Property, seed uint64, tier string, from, stride, n int, deadline time.Time, outPath string) int {
	f, err := os.OpenFile(outPath, os.O_CREATE|os.O_WRONLY|os.O_APPEND, 0o644)
	if err != nil {
		fmt.Fprintln(os.Stderr, "worker:", err)
		return 2
	}
	defer f.Close()
	bw := bufio.NewWriter(f)
	for i := from; i < n; i += stride {
		if !deadline.IsZero() && time.Now().After(deadline) {
			break
		}
		out := RunIndex(p, seed, i, tier)
		b, _ := json.Marshal(out)
		bw.Write(b)
		bw.WriteByte('\n')
		if out.Violation != nil || out.MustExit || out.Infra != "" {
			bw.Flush()
		}
		if out.MustExit {
			bw.Flush()
			f.Close()
			os.Exit(3) // world not reusable: the driver starts a fresh worker for the remaining runs
		}
	}
	bw.Flush()
	return 0
}

// ---- driver ------------------------------------------------------------------------------------

type KnownFinding struct {
	Property  string `json:"property"`
	Status    string `json:"status"` // open | fixed
	Signature string `json:"signature"`
	What      string `json:"what"`
	Witness   string `json:"witness,omitempty"`
	Commit    string `json:"commit,omitempty"`
}

func loadKnown(path string) []KnownFinding {
	b, err := os.ReadFile(path)
	if err != nil {
		return nil
	}
	var k struct {
		Findings []KnownFinding `json:"findings"`
	}
	if json.Unmarshal(b, &k) != nil {
		return nil
	}
	return k.Findings
}

type DriveOpts struct {
	Prop           string
	Tier           string
	Seed           uint64
	Workers        int
	Self           string // path of this binary
	Evidence       string
	ReplayDir      string
	KnownPath      string
	Scratch        string
	WallCap        time.Duration
	RunsOverride   int
	SimgenManifest string
	SelfTest       bool
}

type agg struct {
	evals         int
	extra         int
	distinct      map[uint64]bool
	nontrivial    int
	steps, sw, tf uint64
	simNs         int64
	faults        map[string]uint64
	probes        map[string]uint64
	states        map[uint64]bool
	traces        map[uint64]bool
	samples       []json.RawMessage
	viol          []RunOut
	inconcl       map[string]int
	infra         []string
}

// Drive runs a property's tier across worker processes, writes the evidence file and returns
// the process exit code (0 held, 1 violation, 2 infrastructure).
func Drive(o DriveOpts) int {
	p := Lookup(o.Prop)
	if p == nil {
		fmt.Fprintf(os.Stderr, "unknown property %s\n", o.Prop)
		return 2
	}
	start := time.Now()
	n := p.Runs(o.Tier)
	if o.RunsOverride > 0 {
		n = o.RunsOverride
	}
	if o.Workers <= 0 {
		o.Workers = 16
	}
	if o.Workers > n {
		o.Workers = n
	}
	deadline := time.Time{}
	if o.WallCap > 0 {
		deadline = start.Add(o.WallCap)
	}
	os.MkdirAll(o.Scratch, 0o755)
	a := &agg{distinct: map[uint64]bool{}, faults: map[string]uint64{}, probes: map[string]uint64{},
		states: map[uint64]bool{}, traces: map[uint64]bool{}, inconcl: map[string]int{}}
	var mu sync.Mutex
	var wg sync.WaitGroup
	for w := 0; w < o.Workers; w++ {
		wg.Add(1)
		go func(w int) {
			defer wg.Done()
			from := w
			restarts := 0
			for from < n {
				outPath := filepath.Join(o.Scratch, fmt.Sprintf("w%d-%d.jsonl", w, restarts))
				args := []string{"worker", "-prop", o.Prop, "-tier", o.Tier, "-seed", strconv.FormatUint(o.Seed, 10),
					"-from", strconv.Itoa(from), "-stride", strconv.Itoa(o.Workers), "-n", strconv.Itoa(n), "-out", outPath}
				if !deadline.IsZero() {
					args = append(args, "-deadline", strconv.FormatInt(deadline.UnixNano(), 10))
				}
				cmd := exec.Command(o.Self, args...)
				cmd.Env = append(os.Environ(), "VERIF_WORLD_DIR="+filepath.Join(o.Scratch, fmt.Sprintf("world-w%d", w)))
				if os.Getenv("GORACE") == "" {
					cmd.Env = append(cmd.Env, "GORACE=halt_on_error=0 exitcode=0 log_path="+filepath.Join(o.Scratch, "race"))
				}
				cmd.Stderr = os.Stderr
				err := cmd.Run()
				last := -1
				mu.Lock()
				last = a.absorb(outPath)
				mu.Unlock()
				code := 0
				if err != nil {
					if ee, ok := err.(*exec.ExitError); ok {
						code = ee.ExitCode()
					} else {
						code = 2
					}
				}
				if code == 0 {
					return
				}
				if code != 3 {
					// the worker died without reporting (runtime fatal error, kill): the run after the
					// last reported index is the culprit
					mu.Lock()
					culprit := last + o.Workers
					if last < 0 {
						culprit = from
					}
					a.infra = append(a.infra, fmt.Sprintf("worker %d exited with code %d at run index %d", w, code, culprit))
					mu.Unlock()
					last = culprit
				}
				if last < 0 {
					last = from
				}
				from = last + o.Workers
				restarts++
				if restarts > 2000+n/8 {
					mu.Lock()
					a.infra = append(a.infra, fmt.Sprintf("worker %d restarted too often", w))
					mu.Unlock()
					return
				}
			}
		}(w)
	}
	wg.Wait()

	selftest := ""
	if o.Tier == "thorough" || os.Getenv("VERIF_SELFTEST") != "" {
		nst := 48
		if rc := SelfTest(o.Prop, o.Seed, nst, o.Self); rc != 0 {
			a.infra = append(a.infra, "determinism self-test failed: the same seeds produced different traces in different processes")
		} else {
			selftest = fmt.Sprintf("%d runs x 3 fresh processes at GOMAXPROCS 1/4/16: identical per-run trace hashes, step counts and outcomes", nst)
		}
	}
	// reach: a thorough run in which a condition the property depends on was never hit says
	// nothing about it (infrastructure problem, not a pass)
	if o.Tier == "thorough" {
		for _, name := range requiredProbes[o.Prop] {
			if a.probes[name]+a.faults[name] == 0 {
				a.infra = append(a.infra, fmt.Sprintf("reach probe %q stayed at zero over the whole thorough run", name))
			}
		}
	}
	known := loadKnown(o.KnownPath)
	exit := 0
	// group violations by signature
	bySig := map[string][]RunOut{}
	var sigs []string
	for _, v := range a.viol {
		s := v.Violation.Signature
		if _, ok := bySig[s]; !ok {
			sigs = append(sigs, s)
		}
		bySig[s] = append(bySig[s], v)
	}
	sort.Strings(sigs)
	knownSeen := map[string]int{}
	var newViol []string
	for _, s := range sigs {
		if k := matchKnown(known, o.Prop, s); k != nil {
			knownSeen[k.Signature] += len(bySig[s])
			if os.Getenv("VERIF_SAVE_KNOWN") != "" && k.Witness != "" {
				// (maintenance mode) refresh the committed witness replay of a known finding
				o2 := o
				o2.ReplayDir = filepath.Join(o.ReplayDir, "tmp-known")
				path := writeReplay(o2, p, bySig[s][0], true)
				dst := filepath.Join(filepath.Dir(o.ReplayDir), k.Witness)
				os.MkdirAll(filepath.Dir(dst), 0o755)
				if b, err := os.ReadFile(path); err == nil {
					os.WriteFile(dst, b, 0o644)
				}
				os.RemoveAll(o2.ReplayDir)
			}
			continue
		}
		// a violation the known-findings file does not list
		// the replay file must reproduce the violation in a fresh process before it is reported; an
		// occurrence whose replay does not (seen with the race detector, whose bounded access
		// history makes a report depend on more than the schedule) is passed over for the next one
		v := bySig[s][0]
		var path string
		ok := false
		for i := 0; i < len(bySig[s]) && i < 4 && !ok; i++ {
			if path != "" {
				os.Remove(path)
			}
			v = bySig[s][i]
			path = writeReplay(o, p, v, len(newViol) < 2 && i == 0)
			for try := 0; try < 3 && !ok; try++ {
				ok = verifyReplay(o, path, s)
			}
		}
		if !ok {
			a.infra = append(a.infra, fmt.Sprintf("replay of %s did not reproduce signature %q", path, s))
			continue
		}
		fmt.Printf("VIOLATION property=%s replay=%s\n", o.Prop, path)
		fmt.Printf("  class=%s signature=%q occurrences=%d\n  %s\n", v.Violation.Class, s, len(bySig[s]), firstLine(v.Violation.Detail))
		newViol = append(newViol, s)
		exit = 1
	}
	for _, k := range known {
		if k.Property == o.Prop && k.Status == "open" {
			fmt.Printf("KNOWN-FINDING: property=%s %s [signature %q, seen %d times in this run]\n", o.Prop, k.What, k.Signature, knownSeen[k.Signature])
		}
	}
	if len(a.infra) > 0 {
		for _, s := range a.infra {
			fmt.Fprintln(os.Stderr, "INFRA:", s)
		}
		if exit == 0 {
			exit = 2
		}
	}
	wall := time.Since(start).Seconds()
	if exit != 2 {
		if err := writeEvidence(o, p, a, wall, len(newViol), knownSeen, selftest); err != nil {
			fmt.Fprintln(os.Stderr, "evidence:", err)
			exit = 2
		}
	}
	fmt.Printf("%s tier=%s seed=%d runs=%d (+%d inner) distinct_nontrivial=%d violations(new)=%d known_seen=%d wall=%.1fs\n",
		o.Prop, o.Tier, o.Seed, a.evals, a.extra, len(a.distinct), len(newViol), len(knownSeen), wall)
	return exit
}

func firstLine(s string) string {
	if i := strings.IndexByte(s, '\n'); i >= 0 {
		return s[:i]
	}
	return s
}

func matchKnown(known []KnownFinding, prop, sig string) *KnownFinding {
	for i := range known {
		k := &known[i]
		if k.Property == prop && k.Status == "open" && k.Signature == sig {
			return k
		}
	}
	return nil
}

func (a *agg) absorb(path string) (lastIdx int) {
	lastIdx = -1
	f, err := os.Open(path)
	if err != nil {
		return
	}
	defer f.Close()
	sc := bufio.NewScanner(f)
	sc.Buffer(make([]byte, 1<<20), 1<<28)
	for sc.Scan() {
		var out RunOut
		if json.Unmarshal(sc.Bytes(), &out) != nil {
			continue
		}
		lastIdx = out.Index
		a.evals++
		a.extra += out.Extra
		if out.Infra != "" {
			a.infra = append(a.infra, fmt.Sprintf("run %d: %s", out.Index, out.Infra))
			continue
		}
		if out.NonTrivial {
			a.nontrivial++
			a.distinct[out.CaseHash] = true
		}
		for _, h := range out.InnerNT {
			a.distinct[h] = true
		}
		a.steps += out.Steps
		a.sw += out.Switches
		a.tf += out.TimerFires
		a.simNs += out.SimNs
		if out.SwitchHash != 0 {
			a.traces[out.SwitchHash] = true
		}
		for k, v := range out.Faults {
			a.faults[k] += v
		}
		for k, v := range out.Probes {
			a.probes[k] += v
		}
		for _, s := range out.States {
			a.states[s] = true
		}
		if out.Sample != nil && len(a.samples) < 3 {
			a.samples = append(a.samples, out.Sample)
		}
		if out.Inconclusive != "" {
			a.inconcl[out.Inconclusive]++
		}
		if out.Violation != nil {
			a.viol = append(a.viol, out)
		}
		for i := range out.Also {
			o2 := out
			v := out.Also[i]
			o2.Violation = &v
			o2.Also = nil
			a.viol = append(a.viol, o2)
		}
	}
	return
}

// ReplayFile is what a VIOLATION line points at.
type ReplayFile struct {
	Property     string          `json:"property"`
	Seed         uint64          `json:"verif_seed"`
	RunIndex     int             `json:"run_index"`
	RunSeed      uint64          `json:"run_seed"`
	Tier         string          `json:"tier"`
	Class        string          `json:"class"`
	Signature    string          `json:"signature"`
	Detail       string          `json:"detail"`
	Case         json.RawMessage `json:"case"`
	Choices      []int32         `json:"choices"`
	Log          []string        `json:"log_tail,omitempty"`
	Minimised    bool            `json:"minimised"`
	ScheduleNote string          `json:"schedule_note,omitempty"`
}

func writeReplay(o DriveOpts, p Property, v RunOut, minimise bool) string {
	os.MkdirAll(o.ReplayDir, 0o755)
	rf := ReplayFile{Property: o.Prop, Seed: o.Seed, RunIndex: v.Index, RunSeed: v.Seed, Tier: o.Tier,
		Class: v.Violation.Class, Signature: v.Violation.Signature, Detail: v.Violation.Detail,
		Case: v.Case, Choices: v.Choices, Log: v.Log}
	path := filepath.Join(o.ReplayDir, fmt.Sprintf("%s-%d-%d.json", o.Prop, o.Seed, v.Index))
	// minimise in a child process (a failing world is not reusable)
	raw, _ := json.MarshalIndent(rf, "", " ")
	os.WriteFile(path, raw, 0o644)
	if !minimise {
		return path
	}
	cmd := exec.Command(o.Self, "minimise", "-file", path)
	cmd.Env = append(os.Environ(), "VERIF_WORLD_DIR="+filepath.Join(o.Scratch, "world-min"))
	cmd.Stderr = os.Stderr
	cmd.Run() // best effort: on failure the unminimised file stays
	return path
}

func verifyReplay(o DriveOpts, path, sig string) bool {
	cmd := exec.Command(o.Self, "replay", "-file", path, "-quiet")
	cmd.Env = append(os.Environ(), "VERIF_WORLD_DIR="+filepath.Join(o.Scratch, "world-replay"))
	out, _ := cmd.CombinedOutput()
	rf, err := readReplay(path)
	if err != nil {
		return false
	}
	return strings.Contains(string(out), "REPRODUCED signature="+strconv.Quote(rf.Signature))
}

func readReplay(path string) (*ReplayFile, error) {
	b, err := os.ReadFile(path)
	if err != nil {
		return nil, err
	}
	var rf ReplayFile
	if err := json.Unmarshal(b, &rf); err != nil {
		return nil, err
	}
	return &rf, nil
}

// Replay re-executes a replay file; exit 1 + REPRODUCED line if the same violation appears.
func Replay(path string, quiet bool) int {
	rf, err := readReplay(path)
	if err != nil {
		fmt.Fprintln(os.Stderr, "replay:", err)
		return 2
	}
	p := Lookup(rf.Property)
	if p == nil {
		fmt.Fprintln(os.Stderr, "replay: unknown property", rf.Property)
		return 2
	}
	c, err := p.Decode(rf.Case)
	if err != nil {
		fmt.Fprintln(os.Stderr, "replay: decode:", err)
		return 2
	}
	out := p.Exec(c, rf.Choices)
	if out.Infra != "" {
		fmt.Println("INFRA:", out.Infra)
		return 2
	}
	if out.Violation == nil {
		fmt.Println("NOT-REPRODUCED: the execution satisfied the property")
		return 0
	}
	if !quiet {
		fmt.Printf("class=%s\n%s\n", out.Violation.Class, out.Violation.Detail)
		for _, l := range out.Log {
			fmt.Println("  ", l)
		}
	}
	same := out.Violation.Signature == rf.Signature
	for _, v := range out.Also {
		if v.Signature == rf.Signature {
			same = true
		}
	}
	if same {
		fmt.Printf("REPRODUCED signature=%s\n", strconv.Quote(rf.Signature))
	} else {
		fmt.Printf("DIFFERENT signature=%s (file has %s)\n", strconv.Quote(out.Violation.Signature), strconv.Quote(rf.Signature))
	}
	fmt.Printf("VIOLATION property=%s replay=%s\n", rf.Property, path)
	return 1
}

// Minimise shrinks the case of a replay file while the same signature persists, then rewrites
// the file. Every candidate is executed in a child process.
func Minimise(path, self string) int {
	rf, err := readReplay(path)
	if err != nil {
		return 2
	}
	p := Lookup(rf.Property)
	if p == nil {
		return 2
	}
	cur, err := p.Decode(rf.Case)
	if err != nil {
		return 2
	}
	deadline := time.Now().Add(45 * time.Second)
	improved := true
	rounds := 0
	for improved && time.Now().Before(deadline) {
		improved = false
		for _, cand := range p.Shrink(cur) {
			if time.Now().After(deadline) {
				break
			}
			b, _ := json.Marshal(cand)
			tmp := path + ".cand"
			crf := *rf
			crf.Case = b
			crf.Choices = nil
			raw, _ := json.Marshal(crf)
			os.WriteFile(tmp, raw, 0o644)
			cmd := exec.Command(self, "try", "-file", tmp)
			cmd.Env = os.Environ()
			out, _ := cmd.Output()
			os.Remove(tmp)
			var res RunOut
			if json.Unmarshal(out, &res) != nil || res.Violation == nil {
				continue
			}
			if res.Violation.Signature != rf.Signature {
				found := false
				for _, v := range res.Also {
					if v.Signature == rf.Signature {
						found = true
					}
				}
				if !found {
					continue
				}
			}
			cur = cand
			rf.Case = b
			rf.Choices = res.Choices
			rf.Detail = res.Violation.Detail
			rf.Log = res.Log
			rf.Minimised = true
			improved = true
			rounds++
			break
		}
	}
	minimiseSchedule(rf, p, path, self, deadline.Add(40*time.Second))
	raw, _ := json.MarshalIndent(rf, "", " ")
	os.WriteFile(path, raw, 0o644)
	return 0
}

// minimiseSchedule shortens the recorded choice list while the same signature persists:
// first the shortest prefix after which the default continuation (keep running the current
// goroutine, else the lowest id) still fails, then single context switches are removed
// (lenient replay: a choice that became unavailable falls back to the default). Every accepted
// candidate is re-recorded, so the stored list replays strictly.
func minimiseSchedule(rf *ReplayFile, p Property, path, self string, deadline time.Time) {
	if len(rf.Choices) == 0 {
		return
	}
	try := func(choices []int32, lenient bool) (RunOut, bool) {
		crf := *rf
		crf.Choices = choices
		if len(choices) == 0 {
			crf.Choices = []int32{0}
		}
		raw, _ := json.Marshal(crf)
		tmp := path + ".sched"
		os.WriteFile(tmp, raw, 0o644)
		defer os.Remove(tmp)
		cmd := exec.Command(self, "try", "-file", tmp)
		cmd.Env = os.Environ()
		if lenient {
			cmd.Env = append(cmd.Env, "VERIF_LENIENT=1")
		}
		out, _ := cmd.Output()
		var res RunOut
		if json.Unmarshal(out, &res) != nil || res.Violation == nil {
			return res, false
		}
		if res.Violation.Signature == rf.Signature {
			return res, true
		}
		for _, v := range res.Also {
			if v.Signature == rf.Signature {
				return res, true
			}
		}
		return res, false
	}
	switches := func(ch []int32) int {
		n := 0
		for i := 1; i < len(ch); i++ {
			if ch[i] != ch[i-1] {
				n++
			}
		}
		return n
	}
	before := switches(rf.Choices)
	// 1. shortest failing prefix (binary search, then verified)
	lo, hi := 0, len(rf.Choices)
	for lo < hi && time.Now().Before(deadline) {
		mid := (lo + hi) / 2
		if res, ok := try(rf.Choices[:mid], false); ok {
			hi = mid
			rf.Choices, rf.Detail, rf.Log = res.Choices, res.Violation.Detail, res.Log
			if hi > len(rf.Choices) {
				hi = len(rf.Choices)
			}
		} else {
			lo = mid + 1
		}
	}
	// 2. remove single context switches, latest first
	tries := 0
	for i := len(rf.Choices) - 1; i > 0 && tries < 120 && time.Now().Before(deadline); i-- {
		if i >= len(rf.Choices) || rf.Choices[i] == rf.Choices[i-1] {
			continue
		}
		cand := append([]int32(nil), rf.Choices...)
		prev := cand[i-1]
		j := i
		for j < len(cand) && cand[j] == rf.Choices[i] {
			cand[j] = prev // stay with the goroutine that was running
			j++
		}
		tries++
		if res, ok := try(cand, true); ok && switches(res.Choices) < switches(rf.Choices) {
			rf.Choices, rf.Detail, rf.Log = res.Choices, res.Violation.Detail, res.Log
		}
	}
	rf.ScheduleNote = fmt.Sprintf("schedule minimised: %d -> %d context switches, %d recorded choices", before, switches(rf.Choices), len(rf.Choices))
}

// Try executes the case of a (candidate) replay file with a fresh schedule and prints the RunOut.
func Try(path string) int {
	rf, err := readReplay(path)
	if err != nil {
		return 2
	}
	p := Lookup(rf.Property)
	c, err := p.Decode(rf.Case)
	if err != nil {
		return 2
	}
	var ch []int32
	if len(rf.Choices) > 0 {
		ch = rf.Choices
	}
	out := p.Exec(c, ch)
	b, _ := json.Marshal(out)
	os.Stdout.Write(b)
	return 0
}

func writeEvidence(o DriveOpts, p Property, a *agg, wall float64, newViol int, knownSeen map[string]int, selftest string) error {
	if o.Evidence == "" {
		return nil
	}
	samples := make([]any, 0, len(a.samples))
	for _, s := range a.samples {
		var v any
		json.Unmarshal(s, &v)
		samples = append(samples, v)
	}
	if len(samples) == 0 {
		samples = append(samples, "no sample recorded")
	}
	perHour := 0.0
	if wall > 0 {
		perHour = float64(a.evals+a.extra) / wall * 3600
	}
	cov := map[string]any{
		"evaluations":                    a.evals + a.extra,
		"distinct_nontrivial":            len(a.distinct),
		"nontrivial_runs":                a.nontrivial,
		"rule":                           p.Rule(),
		"samples":                        samples,
		"simulated_runs":                 a.evals,
		"inner_evaluations":              a.extra,
		"runs_per_hour":                  int64(perHour),
		"seeds_per_hour":                 int64(perHour),
		"simulated_time_s":               float64(a.simNs) / 1e9,
		"decision_points":                a.steps,
		"context_switches":               a.sw,
		"timer_firings":                  a.tf,
		"distinct_interleavings_measure": "distinct FNV hashes of the context-switch sequence (goroutine, site) per run",
		"distinct_interleavings":         len(a.traces),
		"distinct_model_states":          len(a.states),
		"faults_fired":                   a.faults,
		"reach_probes":                   a.probes,
		"inconclusive":                   a.inconcl,
		"known_findings_seen":            knownSeen,
		"real_vs_stub":                   p.RealStub(),
		"workers":                        o.Workers,
	}
	if o.SimgenManifest != "" {
		if b, err := os.ReadFile(o.SimgenManifest); err == nil {
			var m map[string]any
			if json.Unmarshal(b, &m) == nil {
				cov["rewriter_manifest_total"] = m["total"]
				cov["rewriter_files"] = m["files_rewritten"]
			}
		}
	}
	ev := map[string]any{
		"property_id": p.ID(),
		"tier":        o.Tier,
		"seed":        int64(o.Seed & 0x7fffffffffffffff),
		"level":       p.Level(),
		"coverage":    cov,
		"assumptions": p.Assumptions(),
		"wall_s":      wall,
		"violations":  newViol,
	}
	b, err := json.MarshalIndent(ev, "", " ")
	if err != nil {
		return err
	}
	os.MkdirAll(filepath.Dir(o.Evidence), 0o755)
	return os.WriteFile(o.Evidence, b, 0o644)
}
