package harness

import (
	"encoding/json"
	"fmt"
	"sort"
	"time"

	"github.com/anishathalye/porcupine"

	"github.com/glebziz/fs_db/internal/verif/refmodel"
	"github.com/glebziz/fs_db/internal/verif/simrt"
)

// C06 — linearizability of concurrent autocommit and RU/RC operations, no deadlock, no panic.

type propConc struct {
	id    string
	rule  string
	runs  [2]int
	gen   func(r *simrt.Rand, idx int, tier string) ConcCase
	check func(c ConcCase, cr *concRun, out *RunOut) *Violation
}

func (p propConc) ID() string    { return p.id }
func (p propConc) Level() string { return "exploration" }
func (p propConc) Rule() string  { return p.rule }
func (p propConc) Assumptions() []string {
	return []string{
		"decision points: before every lock acquire and release, Cond/WaitGroup/Once operation, atomic operation, channel operation, timer, Badger update/view and file operation of fs_db and of its ordered-map dependency; data-race-free code cannot observe finer interleavings (C15 checks race freedom separately)",
		"strategies: uniform random choice (with seeded stickiness and timer probability) and PCT with 1-3 priority change points; schedules are sampled, not enumerated",
		"Badger's internal goroutines and the Go runtime are not scheduled by the simulator (fs_db calls Badger synchronously)",
	}
}
func (p propConc) RealStub() map[string]string { return seqProp{}.RealStub() }
func (p propConc) Runs(tier string) int {
	if tier == "thorough" {
		return p.runs[1]
	}
	return p.runs[0]
}
func (p propConc) Gen(r *simrt.Rand, idx int, tier string) any {
	c := p.gen(r, idx, tier)
	if idx%5 == 2 && simGrpcAvailable() {
		// the same program through the external client: the requests of the concurrent clients meet
		// in the delivery service, the interceptors and the stream reader/writer on the server side
		c.Client = "simgrpc"
	}
	return c
}
func (p propConc) Decode(b json.RawMessage) (any, error) {
	var c ConcCase
	err := json.Unmarshal(b, &c)
	return c, err
}
func (p propConc) Exec(x any, choices []int32) RunOut {
	c := x.(ConcCase)
	out, cr := concExec(c, choices)
	if out.Violation != nil || out.Infra != "" || out.Inconclusive != "" {
		return out
	}
	ov := cr.overlaps()
	out.NonTrivial = ov > 0
	if ov > 0 {
		out.Probes["overlapping-op-pairs"] = uint64(ov)
	}
	if v := p.check(c, cr, &out); v != nil {
		v.Detail += "\nhistory (event numbers):\n" + cr.histText(60)
		out.Violation = v
	}
	return out
}
func (p propConc) Shrink(x any) []any {
	var out []any
	for _, d := range concShrink(x.(ConcCase)) {
		out = append(out, d)
	}
	return out
}

func genConcWorld(r *simrt.Rand) WorldSpec {
	w := genWorldSpec(r)
	// a GC period of the order of the Send time-out lets the timer fire inside short runs
	w.GCPeriodNs = w.SendDurNs * []int64{1, 2, 5, 50}[r.Intn(4)]
	return w
}

func smallSize(r *simrt.Rand) int {
	// at least 9 bytes: every written content is unique, so a read is attributable to one write
	switch r.Pick(70, 20, 10) {
	case 0:
		return 9 + r.Intn(40)
	case 1:
		return []int{2047, 2048, 2049}[r.Intn(3)]
	default:
		return 3000 + r.Intn(40000)
	}
}

func genC06(r *simrt.Rand, idx int, tier string) ConcCase {
	c := ConcCase{Prop: "C06", Final: true}
	c.World = genConcWorld(r)
	c.Keys = genKeys(r, 2, 3)
	id := uint64(0)
	for _, k := range c.Keys {
		if r.Intn(5) > 0 && idx%11 != 5 { // one program in eleven starts on a database that has never published anything
			id++
			c.Init = append(c.Init, Op{K: "set", Key: k, ID: id, Size: smallSize(r)})
		}
	}
	if r.Intn(3) == 0 {
		// overwrite once so that superseded versions exist for the collector
		id++
		c.Init = append(c.Init, Op{K: "set", Key: c.Keys[0], ID: id, Size: smallSize(r)})
	}
	if idx%60 == 30 {
		// a database with more than a thousand keys (more than any batch size a listing might be cut
		// into): two transactions each move a value from one key to another (Set the new key, Delete
		// the old one, Commit) while two clients list the keys; every listing shows each pair in one
		// of its two states, never both keys, never neither
		c.Keys = nil
		c.Init = nil
		id = 0
		n := 1030 + r.Intn(200)
		for k := 0; k < n; k++ {
			id++
			c.Init = append(c.Init, Op{K: "set", Key: fmt.Sprintf("fill-%04d", k), ID: id, Size: 9})
		}
		for p := 0; p < 2; p++ {
			a, b := fmt.Sprintf("pair-%d-a", p), fmt.Sprintf("pair-%d-b", p)
			c.Keys = append(c.Keys, a, b)
			id++
			c.Init = append(c.Init, Op{K: "set", Key: a, ID: id, Size: 9 + r.Intn(30)})
			id++
			c.Clients = append(c.Clients, []Op{{K: "begin", Tx: p + 1, Level: 1}, {K: "set", Tx: p + 1, Key: b, ID: id, Size: 9 + r.Intn(30)},
				{K: "del", Tx: p + 1, Key: a}, {K: "yield", N: r.Intn(30)}, {K: "commit", Tx: p + 1}})
		}
		for p := 0; p < 2; p++ {
			c.Clients = append(c.Clients, []Op{{K: "keys"}, {K: "yield", N: r.Intn(20)}, {K: "keys"}})
		}
		c.Sched = genSched(r, 3000)
		c.Sched.MaxSteps = 3_000_000
		if r.Intn(2) == 0 {
			// a lister that is slow whenever it (re-)takes a read lock
			c.Sched.Strategy, c.Sched.Bias, c.Sched.TimerProb = "stretch", 0.9, 0
			c.Sched.StallG = 3 + r.Intn(2)
			c.Sched.StretchTag = []string{"RWMutex.RLock", "RWMutex.RUnlock"}[r.Intn(2)]
			c.Sched.StretchFor = uint64(100 + r.Intn(400))
			c.Sched.StretchTimes = 2 + r.Intn(6)
		}
		return c
	}
	if idx%13 == 11 {
		// several clients list the keys again and again while a writer adds new keys (and removes
		// one): a listing that STARTS after a Set was acknowledged contains that key, whoever else is
		// listing at the moment
		id0 := id
		var w []Op
		for k := 0; k < 2+r.Intn(3); k++ {
			id++
			key := fmt.Sprintf("fresh-%d", id-id0)
			c.Keys = append(c.Keys, key)
			w = append(w, Op{K: "set", Key: key, ID: id, Size: 9 + r.Intn(40)}, Op{K: "keys"})
			if r.Intn(3) == 0 {
				w = append(w, Op{K: "yield", N: r.Intn(20)})
			}
		}
		if len(c.Init) > 0 && r.Intn(2) == 0 {
			w = append(w, Op{K: "del", Key: c.Init[0].Key}, Op{K: "keys"})
		}
		c.Clients = append(c.Clients, w)
		for p := 0; p < 1+r.Intn(2); p++ {
			var ops []Op
			for k := 0; k < 2+r.Intn(4); k++ {
				ops = append(ops, Op{K: "keys"})
				if r.Intn(2) == 0 {
					ops = append(ops, Op{K: "yield", N: r.Intn(15)})
				}
			}
			c.Clients = append(c.Clients, ops)
		}
		c.Sched = genSched(r, 300)
		c.Sched.MaxSteps = 600_000
		return c
	}
	if idx%13 == 3 {
		// two clients hold the same transaction handle and end it at the same time (Commit and
		// Rollback, or two Commits - a client whose first call timed out tries again): whichever comes
		// first decides, the other finds the transaction gone
		hot := c.Keys[0]
		id++
		c.Init = append(c.Init, Op{K: "begin", Tx: 1, Level: r.Intn(4)}, Op{K: "set", Tx: 1, Key: hot, ID: id, Size: 9 + r.Intn(40)})
		if r.Intn(2) == 0 {
			id++
			c.Init = append(c.Init, Op{K: "set", Tx: 1, Key: c.Keys[len(c.Keys)-1], ID: id, Size: 9 + r.Intn(40)})
		}
		enders := [][]string{{"commit", "rollback"}, {"commit", "commit"}, {"commit", "rollback", "commit"}}[r.Intn(3)]
		for _, k := range enders {
			c.Clients = append(c.Clients, []Op{{K: "yield", N: r.Intn(6)}, {K: k, Tx: 1}, {K: "get", Key: hot}})
		}
		if r.Intn(2) == 0 {
			c.Clients = append(c.Clients, []Op{{K: "get", Key: hot}, {K: "keys"}})
		}
		c.Sched = genSched(r, 150)
		c.Sched.MaxSteps = 600_000
		return c
	}
	if idx%13 == 7 {
		// transactions that end while others make their first write: 1-2 transactions that have
		// written already only end (commit or rollback) in the concurrent phase; 1-2 transactions
		// that have not written yet write, read their own write back, commit, and read again
		nend := 1 + r.Intn(2)
		for t := 1; t <= nend; t++ {
			id++
			c.Init = append(c.Init, Op{K: "begin", Tx: t, Level: r.Intn(2)}, Op{K: "set", Tx: t, Key: c.Keys[r.Intn(len(c.Keys))], ID: id, Size: 9 + r.Intn(40)})
		}
		nnew := 1 + r.Intn(2)
		for t := nend + 1; t <= nend+nnew; t++ {
			c.Init = append(c.Init, Op{K: "begin", Tx: t, Level: r.Intn(2)})
		}
		for t := 1; t <= nend; t++ {
			k := "commit"
			if r.Intn(2) == 0 {
				k = "rollback"
			}
			c.Clients = append(c.Clients, []Op{{K: "yield", N: r.Intn(10)}, {K: k, Tx: t}})
		}
		for t := nend + 1; t <= nend+nnew; t++ {
			key := c.Keys[r.Intn(len(c.Keys))]
			id++
			c.Clients = append(c.Clients, []Op{{K: "yield", N: r.Intn(10)}, {K: "set", Tx: t, Key: key, ID: id, Size: 9 + r.Intn(40)},
				{K: "get", Tx: t, Key: key}, {K: "commit", Tx: t}, {K: "get", Key: key}})
		}
		c.Sched = genSched(r, 120)
		c.Sched.MaxSteps = 600_000
		return c
	}
	if idx%6 == 5 {
		// three kinds of actor on one key: a longer-lived RU/RC transaction that writes the key and
		// reads it back later, autocommit writers of the same key, and a ReadUncommitted observer;
		// all levels must agree on which of two overlapping writes is the more recent one
		hot := c.Keys[0]
		lvl := 1 - r.Intn(2)*r.Intn(2) // mostly ReadCommitted
		id++
		a := []Op{{K: "begin", Tx: 1, Level: lvl}, {K: "yield", N: r.Intn(30)}, {K: "set", Tx: 1, Key: hot, ID: id, Size: smallSize(r)},
			{K: "yield", N: r.Intn(60)}, {K: "get", Tx: 1, Key: hot}, {K: "yield", N: r.Intn(60)}, {K: "get", Tx: 1, Key: hot}}
		if r.Intn(2) == 0 {
			a = append(a, Op{K: "commit", Tx: 1})
		} else {
			a = append(a, Op{K: "rollback", Tx: 1})
		}
		c.Clients = append(c.Clients, a)
		for w := 0; w < 1+r.Intn(2); w++ {
			id++
			b := []Op{{K: "yield", N: r.Intn(40)}, {K: "set", Key: hot, ID: id, Size: smallSize(r)}}
			if r.Intn(2) == 0 {
				b = append(b, Op{K: "get", Key: hot})
			}
			c.Clients = append(c.Clients, b)
		}
		o := []Op{{K: "begin", Tx: 2, Level: 0}}
		for k := 0; k < 2+r.Intn(3); k++ {
			o = append(o, Op{K: "yield", N: r.Intn(80)}, Op{K: "get", Tx: 2, Key: hot})
		}
		o = append(o, Op{K: "rollback", Tx: 2})
		c.Clients = append(c.Clients, o)
		c.Sched = genSched(r, 700)
		c.Sched.MaxSteps = 600_000
		return c
	}
	nc := 2 + r.Intn(3)
	nextTx := 0
	noDelete := r.Intn(2) == 0
	total := 0
	for ci := 0; ci < nc; ci++ {
		var ops []Op
		n := 3 + r.Intn(6)
		if ci == nc-1 && r.Intn(3) == 0 {
			// collector actor
			for k := 0; k < 2+r.Intn(3); k++ {
				switch r.Intn(3) {
				case 0:
					ops = append(ops, Op{K: "gctimer"})
				case 1:
					ops = append(ops, Op{K: "gc"})
				default:
					ops = append(ops, Op{K: "yield", N: 1 + r.Intn(30)})
				}
			}
			c.Clients = append(c.Clients, ops)
			continue
		}
		for len(ops) < n && total < 26 {
			key := c.Keys[r.Intn(len(c.Keys))]
			if r.Intn(5) == 0 {
				// a short RU/RC transaction
				tx := nextTx + 1
				nextTx++
				ops = append(ops, Op{K: "begin", Tx: tx, Level: r.Intn(2)})
				for k := 0; k < 1+r.Intn(3); k++ {
					key := c.Keys[r.Intn(len(c.Keys))]
					switch r.Pick(5, 4, 1) {
					case 0:
						id++
						ops = append(ops, Op{K: "set", Tx: tx, Key: key, ID: id, Size: smallSize(r)})
					case 1:
						ops = append(ops, Op{K: "get", Tx: tx, Key: key})
					default:
						if !noDelete {
							ops = append(ops, Op{K: "del", Tx: tx, Key: key})
						}
					}
				}
				k := "commit"
				if r.Intn(4) == 0 {
					k = "rollback"
				}
				ops = append(ops, Op{K: k, Tx: tx})
				total += 4
				continue
			}
			switch r.Pick(8, 7, 2, 2, 1, 1) {
			case 0:
				id++
				ops = append(ops, Op{K: "set", Key: key, ID: id, Size: smallSize(r)})
			case 1:
				ops = append(ops, Op{K: "get", Key: key})
			case 2:
				if !noDelete {
					ops = append(ops, Op{K: "del", Key: key})
				}
			case 3:
				ops = append(ops, Op{K: "keys"})
			case 4:
				id++
				sz := smallSize(r)
				ops = append(ops, Op{K: "create", Key: key, ID: id, Size: sz, Writes: splitWrites(r, sz)})
			default:
				ops = append(ops, Op{K: "getr", Key: key})
			}
			total++
		}
		c.Clients = append(c.Clients, ops)
	}
	c.Sched = genSched(r, 900)
	c.Sched.MaxSteps = 600_000
	return c
}

// linModel is the reference model as a porcupine sequential specification.
var linModel = porcupine.Model{
	Init: func() interface{} { return refmodel.New() },
	Step: func(state, input, output interface{}) (bool, interface{}) {
		m := state.(*refmodel.Model).Clone()
		ev := output.(HEvent)
		return stepModel(m, ev), m
	},
	Equal: func(a, b interface{}) bool {
		return a.(*refmodel.Model).Fingerprint() == b.(*refmodel.Model).Fingerprint()
	},
	DescribeOperation: func(input, output interface{}) string {
		ev := output.(HEvent)
		return fmt.Sprintf("%s -> %s", ev.Op, ev.Class)
	},
}

// stepModel applies one completed operation to the model and reports whether its recorded
// outcome is what the sequential specification allows at this point.
func stepModel(m *refmodel.Model, ev HEvent) bool {
	o := ev.Op
	switch o.K {
	case "crash":
		m.Reopen() // process death: every open transaction is gone, committed state stays
		return true
	case "begin":
		m.Begin(o.tx(), refmodel.Level(o.Level))
		return ev.Class == ""
	case "commit":
		return string(m.Commit(o.tx())) == ev.Class
	case "rollback":
		return string(m.Rollback(o.tx())) == ev.Class
	case "set", "setr", "create":
		return string(m.Set(o.tx(), o.Key, refmodel.Val{ID: o.ID, Size: o.Size})) == ev.Class
	case "del":
		return string(m.Delete(o.tx(), o.Key)) == ev.Class
	case "get", "getr":
		ans, want := m.Get(o.tx(), o.Key)
		if want != refmodel.OK {
			return string(want) == ev.Class
		}
		if ev.Class != "" {
			if ev.Class != "ErrNotFound" {
				return false
			}
			for _, a := range ans {
				if a.Deleted() {
					return true
				}
			}
			return false
		}
		if ev.Foreign != "" {
			return false
		}
		for _, a := range ans {
			if !a.Deleted() && a.ID == ev.ValID {
				return true
			}
		}
		return false
	case "keys":
		must, may, want := m.Keys(o.tx())
		if want != refmodel.OK {
			return string(want) == ev.Class
		}
		if ev.Class != "" || !sort.StringsAreSorted(ev.Keys) {
			return false
		}
		got := map[string]bool{}
		for _, k := range ev.Keys {
			if got[k] {
				return false
			}
			got[k] = true
		}
		allowed := map[string]bool{}
		for _, k := range must {
			if !got[k] {
				return false
			}
			allowed[k] = true
		}
		for _, k := range may {
			allowed[k] = true
		}
		for _, k := range ev.Keys {
			if !allowed[k] {
				return false
			}
		}
		return true
	}
	return false
}

func linTimeout() time.Duration { return 10 * time.Second }

func checkC06(c ConcCase, cr *concRun, out *RunOut) *Violation {
	// direct rules first: they need no search and name the failure precisely
	deleted := map[string]bool{} // keys some client deletes (in or outside a transaction)
	for _, cl := range append([][]Op{c.Init}, c.Clients...) {
		for _, o := range cl {
			if o.K == "del" {
				deleted[o.Key] = true
			}
		}
	}
	initWritten := map[string]uint64{} // key -> return stamp of the first acknowledged autocommit write
	for _, e := range cr.hist {
		if (e.Op.K == "set" || e.Op.K == "setr" || e.Op.K == "create") && e.Op.Tx == 0 && e.Class == "" {
			if old, ok := initWritten[e.Op.Key]; !ok || e.Ret < old {
				initWritten[e.Op.Key] = e.Ret
			}
		}
	}
	// transactions that more than one client ends (Commit/Rollback through one shared handle)
	enders := map[int]map[int]bool{}
	for _, e := range cr.hist {
		if e.Op.K == "commit" || e.Op.K == "rollback" {
			if enders[e.Op.Tx] == nil {
				enders[e.Op.Tx] = map[int]bool{}
			}
			enders[e.Op.Tx][e.Client] = true
		}
	}
	shared := map[int]bool{}
	for tx, cl := range enders {
		if len(cl) > 1 {
			shared[tx] = true
		}
	}
	// transactions more than one client uses in the concurrent phase at all (one ends it, another
	// still reads and writes through the handle): "transaction not found" is then a legitimate
	// answer to any of their calls, and the order of the calls decides which ones get it
	users := map[int]map[int]bool{}
	for _, e := range cr.hist {
		if e.Op.Tx > 0 && e.Client != 0 {
			if users[e.Op.Tx] == nil {
				users[e.Op.Tx] = map[int]bool{}
			}
			users[e.Op.Tx][e.Client] = true
		}
	}
	for tx, cl := range users {
		if len(cl) > 1 {
			shared[tx] = true
		}
	}
	for tx := range shared {
		won := 0
		for _, e := range cr.hist {
			if e.Op.K == "commit" && e.Op.Tx == tx && e.Class == "" {
				won++
			}
		}
		if won > 1 {
			return &Violation{Class: "two-winners", Signature: "C06|two-enders-won", Detail: fmt.Sprintf("%d Commit calls on one transaction (slot %d) returned nil", won, tx-1)}
		}
	}
	for _, e := range cr.hist {
		switch e.Op.K {
		case "get", "getr":
			if e.Foreign != "" {
				return &Violation{Class: "partial-or-mixed-content", Signature: "C06|partial-or-mixed-content|" + e.Op.K,
					Detail: fmt.Sprintf("client%d %s [%d..%d] returned %s", e.Client, e.Op, e.Call, e.Ret, e.Foreign)}
			}
			if !deleted[e.Op.Key] && e.Class == "ErrNotFound" {
				if w, ok := initWritten[e.Op.Key]; ok && w < e.Call && (e.Op.Tx == 0 || true) {
					return &Violation{Class: "missing-present-key", Signature: "C06|missing-present-key|" + e.Op.K,
						Detail: fmt.Sprintf("client%d %s [%d..%d] failed with ErrNotFound (%s) although the key has had a value since event %d and is never deleted in this program", e.Client, e.Op, e.Call, e.Ret, e.Err, w)}
				}
			}
			if e.Class == "ErrTxNotFound" && shared[e.Op.Tx] {
				break
			}
			if e.Class != "" && e.Class != "ErrNotFound" {
				return &Violation{Class: "error-class", Signature: "C06|error-class|" + e.Op.K + "|" + e.Class,
					Detail: fmt.Sprintf("client%d %s [%d..%d] failed: %s", e.Client, e.Op, e.Call, e.Ret, e.Err)}
			}
		case "keys":
			if e.Class == "ErrTxNotFound" && shared[e.Op.Tx] {
				break
			}
			if e.Class != "" {
				return &Violation{Class: "error-class", Signature: "C06|error-class|keys|" + e.Class,
					Detail: fmt.Sprintf("client%d GetKeys [%d..%d] failed: %s", e.Client, e.Call, e.Ret, e.Err)}
			}
			{
				got := map[string]bool{}
				for _, k := range e.Keys {
					got[k] = true
				}
				for k, w := range initWritten {
					if w < e.Call && !got[k] && !deleted[k] {
						return &Violation{Class: "missing-present-key", Signature: "C06|missing-present-key|keys",
							Detail: fmt.Sprintf("client%d GetKeys [%d..%d] = %q misses %q, which has had a value since event %d and is never deleted in this program", e.Client, e.Call, e.Ret, e.Keys, k, w)}
					}
				}
			}
		case "set", "setr", "create", "del", "begin", "commit", "rollback":
			if e.Class == "ErrTxNotFound" && shared[e.Op.Tx] {
				break // another client ended the transaction first
			}
			if e.Class != "" && !(e.Op.K == "commit" && e.Class == "ErrTxSerialization") {
				return &Violation{Class: "error-class", Signature: "C06|error-class|" + e.Op.K + "|" + e.Class,
					Detail: fmt.Sprintf("client%d %s [%d..%d] failed: %s", e.Client, e.Op, e.Call, e.Ret, e.Err)}
			}
		}
	}
	ops := make([]porcupine.Operation, 0, len(cr.hist))
	for _, e := range cr.hist {
		ops = append(ops, porcupine.Operation{ClientId: e.Client, Input: e.Op, Call: int64(e.Call), Output: e, Return: int64(e.Ret)})
	}
	switch porcupine.CheckOperationsTimeout(linModel, ops, linTimeout()) {
	case porcupine.Illegal:
		if len(shared) > 0 {
			// classification only (both are violations): the OUTCOME of the race between the enders
			// (who won, what is in place afterwards) or only the moment at which it became visible?
			var outcome []porcupine.Operation
			for _, op := range ops {
				k := op.Input.(Op).K
				if op.ClientId == 0 || (k != "get" && k != "getr" && k != "keys") {
					outcome = append(outcome, op)
				}
			}
			if porcupine.CheckOperationsTimeout(linModel, outcome, linTimeout()) == porcupine.Ok {
				return &Violation{Class: "lin-illegal", Signature: "C06|lin-illegal|shared-enders-visibility", Detail: "two clients ended one transaction at the same time; the outcome is consistent, but the reads made meanwhile have no place in any order of the calls (a Rollback answered 'nothing to do' before the concurrent Commit's writes were visible)"}
			}
			return &Violation{Class: "lin-illegal", Signature: "C06|lin-illegal|shared-enders-outcome", Detail: "two clients ended one transaction at the same time and the results of the calls together with what is in place afterwards fit no order of the calls"}
		}
		// classification only (both are violations): is GetKeys alone to blame?
		var noKeys []porcupine.Operation
		for _, op := range ops {
			if op.Input.(Op).K != "keys" {
				noKeys = append(noKeys, op)
			}
		}
		if len(noKeys) < len(ops) && porcupine.CheckOperationsTimeout(linModel, noKeys, linTimeout()) == porcupine.Ok {
			return &Violation{Class: "lin-illegal", Signature: "C06|lin-illegal|getkeys-only", Detail: "the recorded history has no linearization consistent with the reference model; without its GetKeys results it has one"}
		}
		return &Violation{Class: "lin-illegal", Signature: "C06|lin-illegal", Detail: "the recorded history has no linearization consistent with the reference model"}
	case porcupine.Unknown:
		out.Inconclusive = "porcupine-timeout"
	}
	return nil
}

func init() {
	Register(propConc{id: "C06",
		rule: "cases: 2-4 concurrent clients (3-8 operations each: autocommit Set/Get/GetReader/Delete/GetKeys/Create and short RU/RC transactions) on 2-3 shared keys, optional collector actor (GC timer / direct collector), initial values committed first, final read-back; seeded schedule (uniform with stickiness/timer probability, or PCT depth 1-3); oracle: direct rules (foreign or partial content, a never-deleted key reported missing, unexpected error) then porcupine linearizability against the reference model (timeout = inconclusive), deadlock/panic detectors; distinct = hash(program, context-switch trace); non-trivial = at least two operations of different clients on one key (or a commit / GetKeys) overlapped in call/return time",
		runs: [2]int{12000, 200000}, gen: genC06, check: checkC06})
}
