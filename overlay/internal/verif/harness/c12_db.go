package harness

import (
	"bytes"
	"encoding/json"
	"fmt"
	"hash/fnv"

	"github.com/glebziz/fs_db"
	"github.com/glebziz/fs_db/internal/verif/refmodel"
	"github.com/glebziz/fs_db/internal/verif/simrt"
)

// C12 (dbsim part): db.Create on a whole inline database; the writer and the storing goroutine
// (store use case reading through io.Copy) interleave under the seeded scheduler.

func init() {
	createGen = func(r *simrt.Rand) CreateCase {
		c := CreateCase{Writes: genWrites(r), Key: keyPool[r.Intn(len(keyPool))], Prev: -1}
		c.World = genConcWorld(r)
		c.World.Roots = c.World.Roots[:1+r.Intn(min(2, len(c.World.Roots)))]
		if r.Intn(2) == 0 {
			c.Prev = 9 + r.Intn(3000)
		}
		total := 0
		for _, n := range c.Writes {
			total += n
		}
		if r.Intn(8) == 0 {
			// a writer far ahead of the storing side: megabytes handed to Write while the storing
			// goroutine has hardly started - and, most of the time, is about to fail
			c.Writes = nil
			total = 0
			for i := 0; i < 2+r.Intn(4); i++ {
				n := 300_000 + r.Intn(900_000)
				c.Writes = append(c.Writes, n)
				total += n
			}
			switch r.Intn(4) {
			case 0:
				c.Key = "" // refused up front (the refusal reaches the writer through the pipe)
				c.Prev = -1
			case 1:
			default:
				c.NoRoom = true
				for range c.World.Roots {
					room := int64(1 + r.Intn(200_000))
					c.Caps = append(c.Caps, RootSpec{Reported: room, Real: room, Partial: r.Intn(2) == 0})
				}
			}
		} else if r.Intn(5) == 0 && total >= 2 {
			// no root has room for the content: storing must fail and the key keep its value.
			// Caps holds, per root, the room left beyond what it already stores (0 < room < total).
			c.NoRoom = true
			for range c.World.Roots {
				room := int64(1 + r.Intn(total-1))
				c.Caps = append(c.Caps, RootSpec{Reported: room, Real: room, Partial: r.Intn(2) == 0})
			}
		}
		c.Sched = genSched(r, 400)
		c.Sched.MaxSteps = 800_000
		if r.Intn(3) == 0 && simGrpcAvailable() {
			c.Client = "simgrpc"
		}
		if r.Intn(3) == 0 {
			c.Then = genWrites(r)
		}
		if r.Intn(4) == 0 && !c.NoRoom {
			c.MidSet = 1 + r.Intn(len(c.Writes)+1)
		}
		return c
	}
	createExec = func(c CreateCase, choices []int32) RunOut {
		var (
			viol  *Violation
			infra string
			w     *World
		)
		fail := func(class, sig, detail string) {
			if viol == nil {
				viol = &Violation{Class: class, Signature: "C12|" + class + "|db-" + sig, Detail: detail}
				if c.Client != "" {
					viol.Signature += ",client=" + c.Client
				}
			}
		}
		faults := map[string]uint64{}
		res := simrt.Run(c.Sched.config(choices), func() {
			var err error
			w, err = NewWorld(c.World, c.Sched.Seed)
			if err != nil {
				infra = err.Error()
				return
			}
			if err := w.Open(); err != nil {
				infra = "open: " + err.Error()
				return
			}
			var prev []byte
			if c.Prev >= 0 {
				prev = payload(1000, c.Prev)
				if err := w.DB.Set(w.Ctx, c.Key, prev); err != nil {
					infra = "initial Set: " + err.Error()
					return
				}
			}
			if len(c.Caps) > 0 {
				w.Drain()
				w.SetCapacities(nil)
				caps := make([]RootSpec, len(c.Caps))
				for i, rs := range c.Caps {
					used := w.usedBytes(i)
					caps[i] = RootSpec{Reported: used + rs.Reported, Real: used + rs.Real, Partial: rs.Partial}
				}
				w.SetCapacities(caps)
			}
			var db fs_db.DB = w.DB
			if c.Client == "simgrpc" && newSimGrpcClient != nil {
				db = newSimGrpcClient(w)
			}
			f, err := db.Create(w.Ctx, c.Key)
			if err != nil {
				fail("error-class", "create", "Create failed: "+err.Error())
				return
			}
			var want []byte
			var werr error
			var cb callerBuf
			midSet := func() {
				faults["set-of-another-key-while-the-file-is-open"]++
				mid := payload(5000, 20)
				if err := db.Set(w.Ctx, "mid-key", mid); err != nil {
					fail("error-class", "mid-set", "a Set of another key while the file is open failed: "+err.Error())
				} else if got, err := db.Get(w.Ctx, "mid-key"); err != nil || !bytes.Equal(got, mid) {
					fail("lost-write", "mid-set", fmt.Sprintf("a Set of another key while the file is open returned nil; Get -> %d bytes, %v", len(got), err))
				}
			}
			for i, n := range c.Writes {
				if c.MidSet == i+1 {
					midSet()
				}
				chunk := payload(uint64(i)+1, n)
				m, err := cb.write(f, chunk)
				if err != nil {
					werr = err
					break
				}
				if m != n {
					fail("partial-or-mixed-content", "short-write", fmt.Sprintf("Write %d of %d bytes returned %d, nil", i, n, m))
				}
				want = append(want, chunk...)
			}
			if c.MidSet == len(c.Writes)+1 && werr == nil {
				midSet()
			}
			cerr := f.Close()
			w.Drain()
			got, gerr := w.DB.Get(w.Ctx, c.Key)
			e := werr
			if e == nil {
				e = cerr
			}
			idx := &valueIndex{}
			idx.add(refmodel.Val{ID: 1000, Size: c.Prev})
			switch {
			case e == nil:
				if c.Key == "" {
					fail("error-class", "rejection-swallowed", "Create with an empty key: Write* and Close returned nil")
				} else if c.NoRoom && len(want) > 0 {
					// (allowed only if the content really fitted; capacities were chosen so that it does not)
					fail("error-class", "no-room-swallowed", "no root has room for the content, yet Write* and Close returned nil")
				} else if gerr != nil {
					fail("lost-write", "get-after-close", fmt.Sprintf("Close returned nil but Get fails: %v", gerr))
				} else if !bytes.Equal(got, want) {
					fail("partial-or-mixed-content", "truncated-or-garbled", fmt.Sprintf("Close returned nil; Get returns %d bytes (%s), the writes %v concatenate to %d bytes", len(got), idx.describe(got), c.Writes, len(want)))
				}
			default:
				if c.Key == "" {
					faults["storing-refused-empty-key"]++
					if cl := classOf(e); cl != "ErrEmptyKey" {
						fail("error-class", "wrong-class", fmt.Sprintf("the key is empty; Write/Close returned class %q (%v), want ErrEmptyKey", cl, e))
					}
					break
				}
				if c.NoRoom {
					faults["storing-failed-no-room"]++
					if cl := classOf(e); cl != "ErrNoFreeSpace" {
						fail("error-class", "wrong-class", fmt.Sprintf("storing failed for lack of space; Write/Close returned class %q (%v), want ErrNoFreeSpace", cl, e))
					}
				} else {
					fail("error-class", "spurious-error", fmt.Sprintf("Write/Close failed although nothing was injected: %v", e))
				}
				// the key is unchanged
				if c.Prev >= 0 {
					if gerr != nil || !bytes.Equal(got, prev) {
						fail("partial-or-mixed-content", "key-changed-after-failure", fmt.Sprintf("Create failed (%v) but the key no longer holds its previous value: Get -> %d bytes, err %v", e, len(got), gerr))
					}
				} else if classOf(gerr) != "ErrNotFound" {
					fail("partial-or-mixed-content", "key-exists-after-failure", fmt.Sprintf("Create failed (%v) but the key now exists: Get -> %d bytes, err %v", e, len(got), gerr))
				}
			}
			if viol == nil && len(c.Then) > 0 {
				// whatever became of the first file, the next one is a file of its own
				if len(c.Caps) > 0 {
					w.SetCapacities(nil)
				}
				key2 := c.Key
				if key2 == "" {
					key2 = "second"
				}
				faults["second-create-after-the-first-was-closed"]++
				f2, err := db.Create(w.Ctx, key2)
				if err != nil {
					fail("error-class", "second-create", "the second Create failed: "+err.Error())
				} else {
					var want2 []byte
					var e2 error
					for i, n := range c.Then {
						chunk := payload(uint64(i)+101, n)
						if _, err := cb.write(f2, chunk); err != nil {
							e2 = err
							break
						}
						want2 = append(want2, chunk...)
					}
					if cerr := f2.Close(); e2 == nil {
						e2 = cerr
					}
					w.Drain()
					got2, gerr2 := w.DB.Get(w.Ctx, key2)
					if e2 != nil {
						fail("error-class", "second-spurious-error", fmt.Sprintf("the second file (first one ended with %v): Write/Close failed although nothing was injected: %v", e, e2))
					} else if gerr2 != nil {
						fail("lost-write", "second-get-after-close", fmt.Sprintf("the second file: Close returned nil but Get fails: %v", gerr2))
					} else if !bytes.Equal(got2, want2) {
						fail("partial-or-mixed-content", "second-file-garbled", fmt.Sprintf("the second file (first one ended with %v): Close returned nil; Get returns %d bytes, its writes %v concatenate to %d bytes (first difference at offset %d)", e, len(got2), c.Then, len(want2), firstDiff(got2, want2)))
					}
				}
			}
			if viol != nil {
				simrt.Stop()
			}
			if err := w.Close(); err != nil {
				fail("error-class", "close", "database Close failed: "+err.Error())
			}
		})
		if w != nil {
			if w.Disk != nil && w.Disk.Stats.ENOSPC > 0 {
				faults["enospc"] = w.Disk.Stats.ENOSPC
			}
			w.Destroy()
		}
		out := RunOut{Steps: res.Steps, Switches: res.Switches, TimerFires: res.TimerFires, SimNs: res.SimTimeNs,
			TraceHash: res.TraceHash, SwitchHash: res.SwitchHash, Choices: res.Choices, Log: res.Log, Faults: faults,
			NonTrivial: res.Switches > 4}
		b, _ := json.Marshal(c)
		h := fnv.New64a()
		h.Write(b)
		out.CaseHash = h.Sum64() ^ res.SwitchHash
		out.Sample, _ = json.Marshal(map[string]any{"engine": "dbsim db.Create", "case": c, "steps": res.Steps, "switches": res.Switches})
		if infra != "" {
			out.Infra = infra
			out.MustExit = true
			return out
		}
		finishStatus(&out, res, "C12", viol, "db")
		return out
	}
}

func firstDiff(a, b []byte) int {
	n := min(len(a), len(b))
	for i := 0; i < n; i++ {
		if a[i] != b[i] {
			return i
		}
	}
	return n
}
