package harness

// WorldSpec describes the simulated environment of a whole-database run.
type WorldSpec struct {
	Roots       []RootSpec `json:"roots"`
	NumWorkers  int        `json:"workers"`
	SendDurNs   int64      `json:"send_ns"`
	GCPeriodNs  int64      `json:"gc_ns"`
	MaxDirCount uint64     `json:"max_dir"`
	SeqBase     uint64     `json:"seq_base,omitempty"`
	// BadgerDefaults: Badger is opened with its own default sizes instead of the small ones the
	// simulated worlds normally use (cases about the size of one commit)
	BadgerDefaults bool `json:"badger_defaults,omitempty"`
	RootStyle      int  `json:\"root_style,omitempty\"` // spelling of the roots in the configuration: 0 clean, 1 trailing slash, 2 with a /./ segment, 3 doubled slash
}

type RootSpec struct {
	Reported int64 `json:"reported"` // 0 = unlimited
	Real     int64 `json:"real"`
	Partial  bool  `json:"partial,omitempty"`
}
