package harness

import (
	"bytes"
	"encoding/json"
	"errors"
	"fmt"
	"hash/fnv"
	"io"

	"github.com/glebziz/fs_db/internal/utils/async"
	"github.com/glebziz/fs_db/internal/verif/simrt"
)

// C12 (asyncsim part): the read-writer behind Create, alone under the scheduler. A storing
// goroutine drains it with seeded buffer sizes exactly like io.Copy would; the writer issues the
// generated Write sizes and then Close.

type AsyncCase struct {
	Sched    SchedSpec `json:"sched"`
	Writes   []int     `json:"writes"`    // sizes of the Write calls
	ReadBufs []int     `json:"read_bufs"` // buffer sizes used by the storing side (cycled)
	FailAt   int       `json:"fail_at"`   // storing side fails after this many bytes (<0: never)
}

type rwIface interface {
	io.ReadWriteCloser
	Add(int)
	Done()
	SetError(error)
}

var errStoring = errors.New("storing failed (injected)")

func genWrites(r *simrt.Rand) []int {
	sizes := []int{0, 1, 7, 511, 512, 513, 32767, 32768, 32769}
	n := 1 + r.Intn(6)
	if r.Intn(8) == 0 {
		n = 0
	}
	w := make([]int, n)
	for i := range w {
		if r.Intn(3) == 0 {
			w[i] = r.Intn(3)
		} else {
			w[i] = sizes[r.Intn(len(sizes))]
		}
	}
	return w
}

func asyncGen(r *simrt.Rand) AsyncCase {
	c := AsyncCase{Writes: genWrites(r), FailAt: -1}
	total := 0
	for _, n := range c.Writes {
		total += n
	}
	for k := 0; k < 1+r.Intn(3); k++ {
		if total > 2048 {
			// byte-sized reads of large contents only lengthen the run
			c.ReadBufs = append(c.ReadBufs, []int{512, 32768, 32768}[r.Intn(3)])
		} else {
			c.ReadBufs = append(c.ReadBufs, []int{1, 7, 512, 32768}[r.Intn(4)])
		}
	}
	if r.Intn(6) == 0 {
		c.FailAt = r.Intn(40000)
	}
	c.Sched = genSched(r, 120)
	return c
}

func payload(id uint64, n int) []byte {
	b := make([]byte, n)
	x := simrt.NewRand(id)
	x.Read(b)
	// one write id in eleven carries a structured content: after a random head (which keeps the
	// value unique) a run of zero bytes at the end, in the middle or everywhere - contents as
	// sparse files, padded records and pre-allocated blobs have them
	// (residue 8: no write id of the committed fixture, whose bytes were produced by this function
	// at the pinned revision, falls on it with more than 16 bytes)
	if id%11 == 8 && n > 16 {
		body := b[9:]
		run := []int{len(body), 4096, 8192, 32768, 40960, len(body) / 2}[int(id/11)%6]
		if run > len(body) {
			run = len(body)
		}
		at := len(body) - run // at the end
		if (id/11)%5 == 4 {
			at = (len(body) - run) / 2 // in the middle
		}
		for i := at; i < at+run; i++ {
			body[i] = 0
		}
	}
	return b
}

func asyncExec(c AsyncCase, choices []int32) (RunOut, *Violation) {
	var viol *Violation
	fail := func(class, sig, detail string) {
		if viol == nil {
			viol = &Violation{Class: class, Signature: "C12|" + class + "|" + sig, Detail: detail}
		}
	}
	var want, got []byte
	overlapped := false
	res := simrt.Run(c.Sched.config(choices), func() {
		var rw rwIface = async.NewReadWriter()
		rw.Add(1)
		writing := false
		var storeErr error
		simrt.GoNamed("storing", 0, func() {
			defer rw.Done()
			k := 0
			for {
				buf := make([]byte, c.ReadBufs[k%len(c.ReadBufs)])
				k++
				if writing {
					overlapped = true
				}
				n, err := rw.Read(buf)
				got = append(got, buf[:n]...)
				if c.FailAt >= 0 && len(got) >= c.FailAt {
					storeErr = errStoring
					rw.SetError(fmt.Errorf("store usecase set: %w", errStoring))
					return
				}
				if err == io.EOF {
					return
				}
				if err != nil {
					storeErr = err
					rw.SetError(err)
					return
				}
			}
		})
		var werr error
		var cb callerBuf
		for i, n := range c.Writes {
			chunk := payload(uint64(i)+1, n)
			writing = true
			m, err := cb.write(rw, chunk)
			writing = false
			if err != nil {
				werr = err
				break
			}
			want = append(want, chunk...)
			if m != n {
				fail("partial-or-mixed-content", "short-write", fmt.Sprintf("Write %d of %d bytes returned n=%d, nil", i, n, m))
			}
		}
		cerr := rw.Close()
		if werr == nil && cerr == nil {
			if storeErr != nil {
				fail("error-class", "storing-error-swallowed", "the storing side failed but neither Write nor Close returned an error")
			} else if !bytes.Equal(want, got) {
				fail("partial-or-mixed-content", "truncated-or-garbled", fmt.Sprintf("Close returned nil; the storing side received %d bytes, the writes concatenate to %d bytes (sizes %v)", len(got), len(want), c.Writes))
			}
		} else {
			e := werr
			if e == nil {
				e = cerr
			}
			if storeErr == nil {
				fail("error-class", "spurious-error", fmt.Sprintf("Write/Close failed with %v although storing succeeded", e))
			} else if !errors.Is(e, errStoring) {
				fail("error-class", "wrong-class", fmt.Sprintf("Write/Close failed with %v, want class of %v", e, errStoring))
			}
		}
	})
	out := RunOut{Steps: res.Steps, Switches: res.Switches, TimerFires: res.TimerFires, SimNs: res.SimTimeNs,
		TraceHash: res.TraceHash, SwitchHash: res.SwitchHash, Choices: res.Choices, Log: res.Log, NonTrivial: overlapped}
	b, _ := json.Marshal(c)
	h := fnv.New64a()
	h.Write(b)
	out.CaseHash = h.Sum64() ^ res.SwitchHash
	out.Sample, _ = json.Marshal(map[string]any{"engine": "asyncsim", "case": c, "steps": res.Steps, "switches": res.Switches})
	out.Faults = map[string]uint64{}
	if c.FailAt >= 0 {
		out.Faults["storing-side-error"] = 1
	}
	finishStatus(&out, res, "C12", viol, "async")
	return out, viol
}
