package harness

import (
	"os"
	"strings"

	"github.com/glebziz/fs_db/internal/verif/simrt"
)

// the last three are long and made of multi-byte characters (2, 3 and 2 bytes each, at different
// alignments): whatever quotes, cuts or pads a key by bytes meets a character boundary problem
var keyPool = []string{"a", "b", "c", "key-ü-ключ-鍵", "dir/with/slash", "sp ace", strings.Repeat("long", 80), "Z", "a.b", "0",
	strings.Repeat("ключ", 70), "k" + strings.Repeat("鍵", 190), strings.Repeat("é", 333) + "-z",
	" lead", "trail ", "nl\n"} // keys are byte strings: white space at either end is part of the key

func genKeys(r *simrt.Rand, lo, hi int) []string {
	n := lo + r.Intn(hi-lo+1)
	p := r.Perm(len(keyPool))
	ks := make([]string, 0, n)
	for _, i := range p[:n] {
		ks = append(ks, keyPool[i])
	}
	return ks
}

func genSize(r *simrt.Rand, big bool) int {
	switch r.Pick(60, 25, 12, 3) {
	case 0:
		return []int{0, 1, 2, 10, 100, 500}[r.Intn(6)]
	case 1:
		return []int{2047, 2048, 2049, 4096, 4097}[r.Intn(5)]
	case 2:
		if !big {
			return r.Intn(3000)
		}
		return []int{32767, 32768, 32769, 65537}[r.Intn(4)]
	default:
		if !big {
			return r.Intn(5000)
		}
		return r.Intn(200 * 1024)
	}
}

func splitWrites(r *simrt.Rand, size int) []int {
	var ws []int
	rest := size
	for rest > 0 && len(ws) < 5 {
		n := rest
		if r.Intn(3) > 0 {
			n = 1 + r.Intn(rest)
		}
		if r.Intn(6) == 0 {
			ws = append(ws, 0) // empty write
		}
		ws = append(ws, n)
		rest -= n
	}
	if rest > 0 {
		ws = append(ws, rest)
	}
	if size == 0 && r.Intn(2) == 0 {
		ws = append(ws, 0)
	}
	return ws
}

// seqProfile steers the sequential generator.
type seqProfile struct {
	prop        string
	steps       [2]int
	maxTx       int
	txWeight    int  // weight of transactional activity (0 = none)
	ctlWeight   int  // weight of control ops (gc, gctimer, bg, drain)
	gcEvery     bool // C09: a collector run after (almost) every step
	late        bool // C13: keep using ended handles
	reopen      int  // weight of reopen ops
	emptyKey    bool
	big         bool
	keys        [2]int
	readback    string
	walk        string
	deleteHeavy bool
	overlap     bool // C03: bias to the same keys inside transactions
	levels      []int
	held        int // percent chance per step of opening a reader that is read only some steps later
	heldW       int // percent chance per step of creating a file whose remaining writes and Close come some steps later
}

func genSeqCase(r *simrt.Rand, p seqProfile) SeqCase {
	c := SeqCase{Prop: p.prop, ReadBack: p.readback, Walk: p.walk}
	c.Sched = SchedSpec{Seed: r.Uint64(), Strategy: "seqbg", MaxSteps: 3_000_000}
	c.World = genWorldSpec(r)
	c.Keys = genKeys(r, p.keys[0], p.keys[1])
	nsteps := p.steps[0] + r.Intn(p.steps[1]-p.steps[0]+1)
	var (
		open   []int
		ended  []int
		nextTx = 0
		id     = uint64(0)
	)
	levels := p.levels
	if len(levels) == 0 {
		levels = []int{0, 1, 2, 3}
	}
	pickKey := func() string {
		if p.overlap && r.Intn(3) > 0 {
			return c.Keys[0]
		}
		return c.Keys[r.Intn(len(c.Keys))]
	}
	writeOp := func(tx int) Op {
		id++
		o := Op{Tx: tx + 1, Key: pickKey(), ID: id, Size: genSize(r, p.big)}
		switch r.Pick(6, 2, 2) {
		case 0:
			o.K = "set"
		case 1:
			o.K = "setr"
			o.Shape = []string{"plain", "byte", "short", "zero", "dataeof", "preread", "prereadstr", "failing"}[r.Intn(8)]
			if o.Shape == "byte" && o.Size > 3000 {
				o.Shape = "short"
			}
			if o.Shape == "failing" && p.walk == "final" {
				// (C14 speaks of fault-free histories: a write whose source fails leaves its partial
				// content file behind, which no listed property forbids)
				o.Shape = "plain"
			}
		default:
			o.K = "create"
			o.Writes = splitWrites(r, o.Size)
		}
		return o
	}
	var pending []int // slots of readers handed out and not read yet
	nextReader := 0
	flushReaders := func(all bool) {
		for len(pending) > 0 {
			c.Ops = append(c.Ops, Op{K: "rread", N: pending[0]})
			pending = pending[1:]
			if !all {
				return
			}
		}
	}
	type pw struct{ slot, tx int }
	var pendingW []pw
	nextWriter := 0
	flushWriters := func(tx int, all bool) { // tx: only the files of that transaction (-2 = any)
		for i := 0; i < len(pendingW); {
			if tx == -2 || pendingW[i].tx == tx {
				c.Ops = append(c.Ops, Op{K: "cclose", N: pendingW[i].slot})
				pendingW = append(pendingW[:i], pendingW[i+1:]...)
				if !all {
					return
				}
				continue
			}
			i++
		}
	}
	for len(c.Ops) < nsteps {
		if len(pending) > 0 && r.Intn(100) < 25 {
			flushReaders(false)
		}
		if len(pendingW) > 0 && r.Intn(100) < 25 {
			flushWriters(-2, false)
		}
		if p.heldW > 0 && len(pendingW) < 2 && r.Intn(100) < p.heldW {
			tx := -1
			if p.txWeight > 0 && len(open) > 0 && r.Intn(2) == 0 {
				tx = open[r.Intn(len(open))]
			}
			id++
			nextWriter++
			o := Op{K: "copen", Tx: tx + 1, Key: pickKey(), ID: id, Size: genSize(r, p.big), N: nextWriter}
			o.Writes = splitWrites(r, o.Size)
			o.Pre = r.Intn(len(o.Writes) + 1)
			c.Ops = append(c.Ops, o)
			pendingW = append(pendingW, pw{nextWriter, tx})
			continue
		}
		if p.held > 0 && len(pending) < 2 && r.Intn(100) < p.held {
			tx := -1
			if p.txWeight > 0 && len(open) > 0 && r.Intn(2) == 0 {
				tx = open[r.Intn(len(open))]
			}
			nextReader++
			c.Ops = append(c.Ops, Op{K: "ropen", Tx: tx + 1, Key: pickKey(), N: nextReader})
			pending = append(pending, nextReader)
			continue
		}
		if p.txWeight > 0 && r.Intn(100) < 2 {
			c.Ops = append(c.Ops, Op{K: "seqjump", Size: []int{1<<20 + 1, 1 << 21, 1 << 31, 1 << 32, 1 << 40}[r.Intn(5)]})
			continue
		}
		// control operations
		if p.ctlWeight > 0 && r.Intn(100) < p.ctlWeight {
			switch r.Pick(3, 3, 3, 2) {
			case 0:
				c.Ops = append(c.Ops, Op{K: "gc", N: 1 + r.Intn(2)})
			case 1:
				c.Ops = append(c.Ops, Op{K: "gctimer"})
			case 2:
				c.Ops = append(c.Ops, Op{K: "bg", N: 1 + r.Intn(60)})
			default:
				c.Ops = append(c.Ops, Op{K: "drain"})
			}
			continue
		}
		if p.reopen > 0 && r.Intn(100) < p.reopen {
			flushReaders(true) // readers of the instance that is about to be closed are read first
			flushWriters(-2, true)
			c.Ops = append(c.Ops, Op{K: "reopen"})
			// handles obtained from the closed instance are not used any more (outside the
			// statements); what is checked after a reopen is that late calls made before it left
			// no trace
			ended = nil
			open = nil
			continue
		}
		tx := -1
		if p.txWeight > 0 && len(open) > 0 && r.Intn(100) < p.txWeight {
			tx = open[r.Intn(len(open))]
		}
		switch {
		case p.late && len(ended) > 0 && r.Intn(5) == 0:
			t := ended[r.Intn(len(ended))]
			switch r.Pick(2, 1, 1, 3, 1, 1, 2, 2, 2) {
			case 0:
				c.Ops = append(c.Ops, Op{K: "get", Tx: t + 1, Key: pickKey()})
			case 1:
				c.Ops = append(c.Ops, readerOp(r, t+1, pickKey()))
			case 2:
				c.Ops = append(c.Ops, Op{K: "keys", Tx: t + 1})
			case 3:
				o := writeOp(t)
				o.K = "set"
				o.Writes = nil
				c.Ops = append(c.Ops, o)
			case 4:
				o := writeOp(t)
				c.Ops = append(c.Ops, o)
			case 5:
				o := writeOp(t)
				o.K = "create"
				o.Shape = ""
				o.Writes = splitWrites(r, o.Size)
				c.Ops = append(c.Ops, o)
			case 6:
				c.Ops = append(c.Ops, Op{K: "del", Tx: t + 1, Key: pickKey()})
			case 7:
				c.Ops = append(c.Ops, Op{K: "commit", Tx: t + 1})
			default:
				c.Ops = append(c.Ops, Op{K: "rollback", Tx: t + 1})
			}
		case p.txWeight > 0 && len(open) < p.maxTx && r.Intn(100) < 12+p.txWeight/6:
			b := Op{K: "begin", Tx: nextTx + 1, Level: levels[r.Intn(len(levels))]}
			b.NoLvl = b.Level == 1 && nextTx%2 == 0 // every other ReadCommitted transaction is begun without naming a level
			b.Quiet = nextTx%3 == 1                 // every third transaction is not touched (not even read through) before its first own statement
			c.Ops = append(c.Ops, b)
			open = append(open, nextTx)
			nextTx++
		case tx >= 0 && r.Intn(100) < 18:
			k := "commit"
			if r.Intn(3) == 0 {
				k = "rollback"
			}
			flushWriters(tx, true) // files created through a transaction are closed before it ends
			c.Ops = append(c.Ops, Op{K: k, Tx: tx + 1})
			for i, t := range open {
				if t == tx {
					open = append(open[:i], open[i+1:]...)
					break
				}
			}
			ended = append(ended, tx)
		default:
			wDel := 2
			if p.deleteHeavy {
				wDel = 6
			}
			switch r.Pick(8, wDel, 3, 1, 1, 1) {
			case 0:
				c.Ops = append(c.Ops, writeOp(tx))
			case 1:
				c.Ops = append(c.Ops, Op{K: "del", Tx: tx + 1, Key: pickKey()})
			case 2:
				c.Ops = append(c.Ops, Op{K: "get", Tx: tx + 1, Key: pickKey()})
			case 3:
				c.Ops = append(c.Ops, readerOp(r, tx+1, pickKey()))
			case 4:
				c.Ops = append(c.Ops, Op{K: "keys", Tx: tx + 1})
			default:
				if p.emptyKey && r.Intn(2) == 0 {
					id++
					o := Op{K: "set", Tx: tx + 1, Key: "", ID: id, Size: r.Intn(10)}
					if id%5 == 1 {
						// deleting the empty key: whatever the answer, both clients give the same one
						o = Op{K: "del", Tx: tx + 1, Key: ""}
					}
					if id%3 == 0 {
						// the refused write is a created file (the refusal reaches the writer in a Write
						// or, at the latest, in Close)
						o.K, o.Writes = "create", []int{o.Size}
					}
					c.Ops = append(c.Ops, o)
				} else {
					c.Ops = append(c.Ops, Op{K: "get", Tx: tx + 1, Key: "never-written"})
				}
			}
		}
		if p.gcEvery && r.Intn(10) < 8 {
			c.Ops = append(c.Ops, Op{K: "gc", N: 1 + r.Intn(3)})
			if r.Intn(2) == 0 {
				c.Ops = append(c.Ops, Op{K: "drain"})
			}
		}
	}
	flushReaders(true)
	flushWriters(-2, true)
	decorateCtx(r, c.Ops)
	return c
}

// decorateCtx chooses the contexts the caller passes (a fault kind of its own: the caller's context
// ends at an arbitrary instant relative to the work the call left behind). One case in three is a
// caller that gives every call a context of its own and cancels it as soon as the call has
// returned; independently, about one call in thirty is made with an already cancelled context.
func decorateCtx(r *simrt.Rand, ops []Op) {
	percall := r.Intn(3) == 0
	for i := range ops {
		switch ops[i].K {
		case "set", "setr", "create", "get", "getr", "keys", "del", "commit", "rollback":
			if r.Intn(30) == 0 {
				ops[i].Ctx = "dead"
			} else if percall {
				ops[i].Ctx = "percall"
			}
		case "begin":
			if percall {
				ops[i].Ctx = "percall"
			}
		}
	}
}

// deep chain: few keys, very many committed versions, snapshot transactions begun at many
// points, collector in between (exercises the binary search, the list/array mirror and node
// recycling through the public API).
func genDeepChain(r *simrt.Rand, prop string, n int) SeqCase {
	c := SeqCase{Prop: prop, ReadBack: "all"}
	c.Sched = SchedSpec{Seed: r.Uint64(), Strategy: "seqbg", MaxSteps: 6_000_000}
	c.World = genWorldSpec(r)
	c.Keys = genKeys(r, 1, 2)
	var open []int
	nextTx := 0
	id := uint64(0)
	for i := 0; i < n; i++ {
		switch r.Pick(70, 8, 6, 8, 4, 4) {
		case 0:
			id++
			c.Ops = append(c.Ops, Op{K: "set", Key: c.Keys[r.Intn(len(c.Keys))], ID: id, Size: r.Intn(20)})
		case 1:
			if len(open) < 5 {
				c.Ops = append(c.Ops, Op{K: "begin", Tx: nextTx + 1, Level: 2 + r.Intn(2)})
				open = append(open, nextTx)
				nextTx++
			}
		case 2:
			if len(open) > 0 {
				j := r.Intn(len(open))
				k := "rollback"
				if r.Intn(2) == 0 {
					k = "commit"
				}
				c.Ops = append(c.Ops, Op{K: k, Tx: open[j] + 1})
				open = append(open[:j], open[j+1:]...)
			}
		case 3:
			c.Ops = append(c.Ops, Op{K: "gc", N: 1})
			if r.Intn(2) == 0 {
				c.Ops = append(c.Ops, Op{K: "drain"})
			}
		case 4:
			c.Ops = append(c.Ops, Op{K: "del", Key: c.Keys[r.Intn(len(c.Keys))]})
		default:
			if len(open) > 0 {
				id++
				c.Ops = append(c.Ops, Op{K: "set", Tx: open[r.Intn(len(open))] + 1, Key: c.Keys[r.Intn(len(c.Keys))], ID: id, Size: r.Intn(20)})
			}
		}
	}
	return c
}

func readFile(p string) ([]byte, error) { return os.ReadFile(p) }

// readerOp: a GetReader whose reader is consumed in one of the ways callers consume readers
// (Shape; Size is the length of the header read first, where there is one).
func readerOp(r *simrt.Rand, tx int, key string) Op {
	o := Op{K: "getr", Tx: tx, Key: key}
	o.Shape = []string{"", "", "copy", "prefix", "prefix", "bufio", "small"}[r.Intn(7)]
	if o.Shape == "prefix" || o.Shape == "bufio" || o.Shape == "small" {
		o.Size = []int{1, 16, 40, 100, 2047, 2049}[r.Intn(6)]
	}
	return o
}
