package harness

import (
	"encoding/base64"
	"encoding/json"
	"fmt"
	"os"
	"os/exec"
	"path/filepath"
	"strings"

	"github.com/dgraph-io/badger/v3"

	"github.com/glebziz/fs_db/internal/verif/refmodel"
	"github.com/glebziz/fs_db/internal/verif/simrt"
)

// C19 — the persisted-state face of the record format: restart on data written by the pinned
// revision, restart round trips across process boundaries with sequence counters near 1, 2^32
// and 2^63, stored-record corruption at load.

func fixtureDir() string {
	d := os.Getenv("VERIF_FIXTURES")
	if d == "" {
		d = "/verif/fixtures"
	}
	return filepath.Join(d, "pinned-42f3f3c")
}

type fixtureAck struct {
	Acks []struct {
		Key    string `json:"-"`
		KeyB64 string `json:"key_b64"`
		ID     uint64 `json:"id"`
		Size   int    `json:"size"`
	} `json:"acks"`
	NextID uint64 `json:"next_id"`
}

// loadFixture unpacks the committed fixture into the world and preloads the model with what
// its writer had acknowledged.
func (s *seqRun) loadFixture(dir string) error {
	cmd := exec.Command("tar", "-xzf", filepath.Join(dir, "data.tar.gz"), "-C", s.w.Dir)
	if out, err := cmd.CombinedOutput(); err != nil {
		return fmt.Errorf("untar: %v: %s", err, out)
	}
	// the fixture was written with relative roots: the reader runs with the world as its
	// working directory (fs_db persists the configured directory of every content)
	if err := os.Chdir(s.w.Dir); err != nil {
		return err
	}
	s.w.DBDir = "db"
	s.w.Roots = []string{"root0", "root1"}
	b, err := os.ReadFile(filepath.Join(dir, "ack.json"))
	if err != nil {
		return err
	}
	var fa fixtureAck
	if err := json.Unmarshal(b, &fa); err != nil {
		return err
	}
	for i := range fa.Acks {
		kb, err := base64.StdEncoding.DecodeString(fa.Acks[i].KeyB64)
		if err != nil {
			return err
		}
		fa.Acks[i].Key = string(kb)
	}
	for _, a := range fa.Acks {
		if a.ID == 0 {
			s.m.Delete(-1, a.Key)
			continue
		}
		v := refmodel.Val{ID: a.ID, Size: a.Size}
		s.idx.add(v)
		s.m.Set(-1, a.Key, v)
		found := false
		for _, k := range s.c.Keys {
			if k == a.Key {
				found = true
			}
		}
		if !found {
			s.c.Keys = append(s.c.Keys, a.Key)
		}
	}
	return nil
}

// corruptAndOpen damages one stored version record with Badger's own API, then opens the
// database: a record shorter than the fixed 40-byte header must make Open fail, and nothing may
// panic whatever the bytes are (a panic ends the run as class panic).
func (s *seqRun) corruptAndOpen(cs CorruptSpec) {
	db, err := badger.Open(badger.DefaultOptions(s.w.DBDir).WithLogger(nil))
	if err != nil {
		s.fail("error-class", "corrupt-setup", "cannot open the Badger directory: "+err.Error())
		return
	}
	var keys [][]byte
	var vals [][]byte
	db.View(func(txn *badger.Txn) error {
		it := txn.NewIterator(badger.DefaultIteratorOptions)
		defer it.Close()
		for it.Seek([]byte("file/")); it.ValidForPrefix([]byte("file/")); it.Next() {
			keys = append(keys, it.Item().KeyCopy(nil))
			v, _ := it.Item().ValueCopy(nil)
			vals = append(vals, v)
		}
		return nil
	})
	if len(keys) == 0 {
		db.Close()
		s.fail("error-class", "corrupt-setup", "the fixture holds no version record")
		return
	}
	i := cs.Pick % len(keys)
	v := append([]byte(nil), vals[i]...)
	if cs.Garble {
		simrt.NewRand(uint64(cs.Pick)*31 + uint64(cs.Truncate)).Read(v)
	}
	if cs.Truncate >= 0 && cs.Truncate < len(v) {
		v = v[:cs.Truncate]
	}
	db.Update(func(txn *badger.Txn) error { return txn.Set(keys[i], v) })
	db.Close()
	s.faults["stored-record-corrupted"]++
	if len(v) < 40 {
		s.faults["stored-record-shorter-than-header"]++
	}
	err = s.w.Open()
	if len(v) < 40 && err == nil {
		s.fail("error-class", "short-record-accepted", fmt.Sprintf("a stored version record was truncated to %d bytes (the fixed header is 40); Open succeeded", len(v)))
		return
	}
	if err == nil {
		// whatever the garbage decodes to is not judged; reading must not panic either
		ks, _ := s.w.DB.GetKeys(s.w.Ctx)
		for _, k := range ks {
			s.w.DB.Get(s.w.Ctx, k)
		}
		s.w.Close()
		return
	}
	s.probes["open-rejected-corrupt-record"]++
	simrt.Stop() // a failed Open leaves its worker pool behind: do not wind down
}

type propC19 struct{ seqProp }

func init() {
	Register(propC19{seqProp{id: "C19",
		rule: "cases by run index: (a) upgrade restart - a database directory written through the public API by the pinned revision 42f3f3c (long, multi-byte, binary and empty keys, overwritten keys with uncollected versions, a tombstone, a committed multi-key transaction, versions of a never-committed and of a rolled-back transaction) is opened by the current tree, everything its writer acknowledged is read back, then a seeded history with restarts continues on it; (b) restart round trips - histories cut at restarts into segments, each executed by a fresh process (or, half of the time, by one process with the counter reset), sequence counter based at 0, 2^32-3, 2^63-3, keys of arbitrary bytes; (d) record level - 100-400 version records whose transaction and content ids are canonical UUIDs of every kind (nil, single non-zero byte, leading/trailing zero halves, all ones, versions 1 and 4), sequences at every byte boundary up to 2^64-1 and keys of any bytes up to 70 000 are stored through the real file repository and must come back from its scan exactly; (c) corruption - one stored version record of the fixture truncated to 0..60 bytes and/or garbled before Open: shorter than 40 bytes => Open fails, never a panic; oracle: reference model carried across restarts; distinct = hash(case); non-trivial = the run restarted on persisted data at least once (a, b) or a record was damaged (c)",
		runs: [2]int{2500, 30000}}})
}

func (p propC19) Gen(r *simrt.Rand, idx int, tier string) any {
	switch idx % 3 {
	case 2:
		c := SeqCase{Prop: "C19", ReadBack: "none", Fixture: fixtureDir()}
		c.Sched = SchedSpec{Seed: r.Uint64(), Strategy: "seqbg", MaxSteps: 2_000_000}
		c.World = defaultWorldSpec()
		c.World.Roots = []RootSpec{{}, {}}
		t := r.Intn(61)
		if r.Intn(3) == 0 {
			t = []int{0, 1, 8, 24, 39, 40, 41}[r.Intn(7)]
		}
		c.Corrupt = &CorruptSpec{Pick: r.Intn(1000), Truncate: t, Garble: r.Intn(2) == 0}
		if r.Intn(6) == 0 {
			c.Corrupt.Truncate = -1
			c.Corrupt.Garble = true
		}
		return c
	}
	if idx%30 == 13 {
		// record level: field values of every kind through the real file repository and its scan
		c := SeqCase{Prop: "C19", ReadBack: "none"}
		c.Sched = SchedSpec{Seed: r.Uint64(), Strategy: "seqbg", MaxSteps: 6_000_000}
		c.World = defaultWorldSpec()
		c.Keys = []string{"a"}
		c.Ops = append(c.Ops, Op{K: "set", Key: "a", ID: 1, Size: 10}, Op{K: "records", N: 100 + r.Intn(300), ID: r.Uint64()}, Op{K: "get", Key: "a"})
		return c
	}
	if idx%30 == 7 {
		// thousands of records read back by a fresh process: the scan at Open must decode every one
		c := SeqCase{Prop: "C19", ReadBack: "none", Dir: "segments"}
		c.Sched = SchedSpec{Seed: r.Uint64(), Strategy: "seqbg", MaxSteps: 6_000_000}
		c.World = defaultWorldSpec()
		nk := 1025 + r.Intn(1400)
		for i := 0; i < nk; i++ {
			c.Keys = append(c.Keys, fmt.Sprintf("rec-%04d-%s", i, strings.Repeat("k", i%7)))
		}
		id := uint64(0)
		for i := 0; i < nk; i++ {
			id++
			c.Ops = append(c.Ops, Op{K: "set", Key: c.Keys[i], ID: id, Size: 1 + r.Intn(24)})
		}
		c.Ops = append(c.Ops, Op{K: "restart"}, Op{K: "keys"})
		for _, ki := range r.Perm(nk)[:60] {
			c.Ops = append(c.Ops, Op{K: "get", Key: c.Keys[ki]})
		}
		c.Ops = append(c.Ops, Op{K: "restart"}, Op{K: "keys"})
		return c
	}
	c := genSeqCase(r, seqProfile{prop: "C19", steps: [2]int{12, 40}, keys: [2]int{2, 4}, maxTx: 3, txWeight: 45, ctlWeight: 8, reopen: 12, readback: "all"})
	// arbitrary key bytes (the inline client takes any string)
	odd := []string{string([]byte{0xff, 0xfe, 0x00, 0x01}), "\x00", "a\nb", strings.Repeat("\xf0\x9f\x92\xa9", 3),
		strings.Repeat("k", 65001), strings.Repeat("long/", 20000), // the inline client takes keys of any length
		string(make([]byte, 16)), "00000000-0000-0000-0000-000000000000", // keys that look like ids (the raw and the text form of the main id)
		strings.Repeat("m", 3<<19), strings.Repeat("big/", 3<<18)} // 1.5 and 3 MiB: records that Badger keeps in its value log, not in the tree
	c.Keys = append(c.Keys, odd[r.Intn(len(odd))])
	for i := range c.Ops {
		if c.Ops[i].K == "reopen" {
			c.Ops[i].K = "restart"
		}
		if c.Ops[i].Key != "" && c.Ops[i].Key != "never-written" && r.Intn(5) == 0 {
			c.Ops[i].Key = c.Keys[len(c.Keys)-1]
		}
	}
	// always end with a restart and a final look
	c.Ops = append(c.Ops, Op{K: "restart"}, Op{K: "keys"})
	c.World.Roots = c.World.Roots[:1+r.Intn(min(2, len(c.World.Roots)))]
	if idx%3 == 0 {
		c.Fixture = fixtureDir()
		c.World.Roots = []RootSpec{{}, {}}
		// write ids must not collide with the fixture's
		for i := range c.Ops {
			if c.Ops[i].ID != 0 {
				c.Ops[i].ID += 100000
			}
		}
	} else {
		c.World.SeqBase = []uint64{0, 1<<32 - 3, 1<<63 - 3, 1 << 40}[r.Intn(4)]
		if r.Intn(2) == 0 {
			c.Dir = "segments" // resolved per process: executed as one child process per segment
		}
	}
	return c
}

func (p propC19) Exec(x any, choices []int32) RunOut {
	c := x.(SeqCase)
	if c.Dir == "segments" {
		return segmentedExec(c)
	}
	out := seqExec(c, choices)
	if c.Corrupt != nil {
		out.NonTrivial = true
	} else {
		out.NonTrivial = out.Probes["restart"] > 0 || out.Probes["version-records-round-tripped"] > 0
	}
	return out
}

// segmentedExec executes a history as one fresh child process per segment (segments are cut at
// restart operations); every process rebuilds the model from the operations of its
// predecessors and checks its own segment.
func segmentedExec(c SeqCase) RunOut {
	dir := filepath.Join(worldBase(), fmt.Sprintf("segments-%d", os.Getpid()))
	os.RemoveAll(dir)
	defer os.RemoveAll(dir)
	c.Dir = dir
	var cuts []int
	for i, o := range c.Ops {
		if o.K == "restart" {
			cuts = append(cuts, i)
		}
	}
	cuts = append(cuts, len(c.Ops))
	from := 0
	total := RunOut{Probes: map[string]uint64{}}
	for _, cut := range cuts {
		if cut == from {
			from = cut + 1 // an empty segment (two restarts in a row, or a restart first)
			continue
		}
		seg := c
		seg.From, seg.To = from, cut
		if from > 0 {
			seg.World.SeqBase = 0 // a fresh process starts its counter at zero
		}
		b, _ := json.Marshal(seg)
		self, _ := os.Executable()
		cmd := exec.Command(self, "exec-case", "-prop", "C19")
		cmd.Stdin = strings.NewReader(string(b))
		cmd.Env = os.Environ()
		raw, err := cmd.Output()
		var out RunOut
		if err != nil || json.Unmarshal(raw, &out) != nil {
			total.Infra = fmt.Sprintf("segment child [%d,%d) failed: %v", from, cut, err)
			return total
		}
		total.Steps += out.Steps
		total.Switches += out.Switches
		total.CaseHash ^= out.CaseHash + uint64(from)
		total.Probes["process-boundary"]++
		if out.Sample != nil {
			total.Sample = out.Sample
		}
		if out.Violation != nil || out.Infra != "" {
			if out.Violation != nil {
				out.Violation.Detail = fmt.Sprintf("segment [%d,%d) executed by a fresh process: %s", from, cut, out.Violation.Detail)
				out.Violation.Signature += ",across-processes"
			}
			total.Violation, total.Infra = out.Violation, out.Infra
			return total
		}
		from = cut + 1
	}
	total.NonTrivial = len(cuts) > 1
	return total
}
