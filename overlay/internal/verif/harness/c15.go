package harness

import (
	"encoding/json"
	"fmt"
	"hash/fnv"
	"os"
	"sort"
	"strings"
	"time"

	"github.com/glebziz/fs_db"
	"github.com/glebziz/fs_db/internal/utils/wpool"
	"github.com/glebziz/fs_db/internal/verif/simrt"
)

// C15 — racesim. The harness binary is built with -race and the pipe hand-off (build tag
// simpipe): goroutines park in raw read(2) calls inside norace functions, so the scheduler adds
// no happens-before edge and the detector judges the program's own synchronisation only, on a
// serialised, seeded, replayable execution. Client goroutines share nothing with each other in
// the harness (no history, no common map): harness bookkeeping must not synchronise them either.

type RaceCase struct {
	Sched         SchedSpec `json:"sched"`
	World         WorldSpec `json:"world"`
	Kind          string    `json:"kind"` // firstuse | mix | create | pool
	Keys          []string  `json:"keys"`
	Init          []Op      `json:"init,omitempty"`
	Clients       [][]Op    `json:"clients"`
	Pool          *PoolCase `json:"pool,omitempty"`
	ReadDirFaults int       `json:"readdir_faults,omitempty"` // this many directory listings fail (EIO) once the clients have started
	Reopen        bool      `json:"reopen,omitempty"`         // close and open the database again after Init, before the clients start
}

type propC15 struct{}

func init() { Register(propC15{}) }

func (propC15) ID() string    { return "C15" }
func (propC15) Level() string { return "exploration" }
func (propC15) Rule() string {
	return "cases: concurrent client programs on one inline database built with -race: 'first use' (2-4 clients whose first operations right after Open are concurrent and of different kinds), 'first read' (the first operations on a database that never held anything are reads inside transactions of every level), mixes of autocommit operations, RU/RC and snapshot transactions with a collector actor, Create writers against their storing goroutines, and worker-pool programs; each under a seeded serialised schedule (uniform/PCT) whose hand-off is invisible to the race detector; a race report counts iff one of its two access stacks contains a frame of fs_db outside the verification harness; identity of a report = the two innermost fs_db functions; distinct = hash(program, context-switch trace); non-trivial = the run had at least two client goroutines and at least 4 context switches"
}
func (propC15) Assumptions() []string {
	return []string{
		"the Go race detector judges only the accesses of the explored executions; the simulator contributes schedule diversity and exact replay, not completeness",
		"the hand-off (raw pipe read/write in //go:norace code) creates no happens-before edge: verified by a built-in self-check (two goroutines incrementing a plain counter under the scheduler must be reported)",
		"shims delegate to the real sync/atomic primitives after the simulated acquire, so the happens-before edges are those of the unmodified program; reports whose stacks lie entirely in harness/simulator code are counted separately and never reported as violations",
	}
}
func (propC15) RealStub() map[string]string {
	m := seqProp{}.RealStub()
	m["race detector"] = "real (go build -race), ThreadSanitizer runtime"
	m["scheduler hand-off"] = "pipes via raw system calls (invisible to the detector)"
	return m
}
func (propC15) Runs(tier string) int {
	if tier == "thorough" {
		return 40000
	}
	return 3000
}

func (propC15) Gen(r *simrt.Rand, idx int, tier string) any {
	c := RaceCase{World: genConcWorld(r), Keys: genKeys(r, 2, 3)}
	c.Sched = genSched(r, 800)
	c.Sched.MaxSteps = 400_000
	id := uint64(0)
	newSet := func(tx int, key string) Op {
		id++
		return Op{K: "set", Tx: tx, Key: key, ID: id, Size: 9 + r.Intn(3000)}
	}
	key := func() string { return c.Keys[r.Intn(len(c.Keys))] }
	switch idx % 8 {
	case 2:
		// the first operations on a database that has never held anything are reads, most of them
		// inside transactions (every level, ReadUncommitted most often) - whatever is built lazily on
		// the read path is built by several readers at once
		c.Kind = "firstread"
		for ci := 0; ci < 2+r.Intn(3); ci++ {
			var ops []Op
			tx := 0
			if r.Intn(4) > 0 {
				tx = ci + 1
				ops = append(ops, Op{K: "begin", Tx: tx, Level: []int{0, 0, 0, 1, 2, 3}[r.Intn(6)]})
			}
			for k := 0; k < 1+r.Intn(3); k++ {
				switch r.Intn(3) {
				case 0:
					ops = append(ops, Op{K: "get", Tx: tx, Key: key()})
				case 1:
					ops = append(ops, Op{K: "keys", Tx: tx})
				default:
					ops = append(ops, Op{K: "getr", Tx: tx, Key: key()})
				}
			}
			if tx > 0 {
				if r.Intn(2) == 0 {
					ops = append(ops, newSet(tx, key()))
				}
				ops = append(ops, Op{K: []string{"commit", "rollback"}[r.Intn(2)], Tx: tx})
			}
			ops = append(ops, newSet(0, key()), Op{K: "get", Key: key()})
			c.Clients = append(c.Clients, ops)
		}
	case 0, 1:
		c.Kind = "firstuse"
		kinds := []string{"set", "get", "keys", "del", "begin", "create", "setr"}
		p := r.Perm(len(kinds))
		for ci := 0; ci < 2+r.Intn(3); ci++ {
			var ops []Op
			switch kinds[p[ci%len(p)]] {
			case "set":
				ops = append(ops, newSet(0, key()))
			case "setr":
				o := newSet(0, key())
				o.K, o.Shape = "setr", "plain"
				ops = append(ops, o)
			case "create":
				o := newSet(0, key())
				o.K = "create"
				o.Writes = []int{o.Size / 2, o.Size - o.Size/2}
				ops = append(ops, o)
			case "get":
				ops = append(ops, Op{K: "get", Key: key()})
			case "keys":
				ops = append(ops, Op{K: "keys"})
			case "del":
				ops = append(ops, Op{K: "del", Key: key()})
			case "begin":
				tx := ci + 1
				ops = append(ops, Op{K: "begin", Tx: tx, Level: r.Intn(4)}, newSet(tx, key()), Op{K: "commit", Tx: tx})
			}
			ops = append(ops, newSet(0, key()), Op{K: "get", Key: key()})
			c.Clients = append(c.Clients, ops)
		}
	case 3, 4, 5:
		c.Kind = "mix"
		for _, k := range c.Keys {
			c.Init = append(c.Init, newSet(0, k))
		}
		tx := 0
		for ci := 0; ci < 2+r.Intn(3); ci++ {
			var ops []Op
			for len(ops) < 3+r.Intn(5) {
				switch r.Pick(5, 5, 1, 2, 3) {
				case 0:
					ops = append(ops, newSet(0, key()))
				case 1:
					ops = append(ops, Op{K: "get", Key: key()})
				case 2:
					ops = append(ops, Op{K: "del", Key: key()})
				case 3:
					ops = append(ops, Op{K: "keys"})
				default:
					tx++
					ops = append(ops, Op{K: "begin", Tx: tx, Level: r.Intn(4)}, newSet(tx, key()), Op{K: "get", Tx: tx, Key: key()})
					if r.Intn(3) == 0 {
						ops = append(ops, Op{K: "rollback", Tx: tx})
					} else {
						ops = append(ops, Op{K: "commit", Tx: tx})
					}
				}
			}
			c.Clients = append(c.Clients, ops)
		}
		if r.Intn(2) == 0 {
			c.Clients = append(c.Clients, []Op{{K: "gctimer"}, {K: "gc"}, {K: "yield", N: 10}, {K: "gc"}})
		}
	case 6:
		c.Kind = "create"
		for ci := 0; ci < 2+r.Intn(2); ci++ {
			o := newSet(0, key())
			o.K = "create"
			o.Size = 9 + r.Intn(70000)
			o.Writes = splitWrites(r, o.Size)
			c.Clients = append(c.Clients, []Op{o, {K: "get", Key: o.Key}})
		}
	case 7:
		if idx%16 == 15 {
			// the listing of a content directory fails for a moment (EIO) while clients write: the
			// writes that hit it fail, nothing else may happen
			c.Kind = "readdir-fault"
			c.ReadDirFaults = 1 + r.Intn(3)
			for len(c.World.Roots) < 2 {
				c.World.Roots = append(c.World.Roots, RootSpec{})
			}
			for _, k := range c.Keys {
				c.Init = append(c.Init, newSet(0, k), newSet(0, k))
			}
			for ci := 0; ci < 2; ci++ {
				c.Clients = append(c.Clients, []Op{newSet(0, key()), newSet(0, key()), {K: "get", Key: key()}, newSet(0, key())})
			}
			break
		}
		if idx%16 == 7 {
			// an existing database is opened again while its own background work (the periodic
			// collector above all, with a period of microseconds) is already running: start-up against
			// the collector, then a few client operations
			c.Kind = "reopen"
			c.Reopen = true
			for k := 0; k < 4+r.Intn(20); k++ {
				c.Init = append(c.Init, newSet(0, key()))
			}
			c.World.GCPeriodNs = c.World.SendDurNs
			c.Sched.Strategy, c.Sched.TimerProb, c.Sched.Bias = "uniform", []float64{0.05, 0.2, 0.5}[r.Intn(3)], []float64{0, 0.5, 0.9}[r.Intn(3)]
			for ci := 0; ci < 2; ci++ {
				c.Clients = append(c.Clients, []Op{newSet(0, key()), {K: "get", Key: key()}, {K: "keys"}})
			}
			break
		}
		fallthrough
	default:
		c.Kind = "pool"
		pc := (propC16{}).Gen(r, idx*3+1, tier).(PoolCase) // normal / seqlife programs (index chosen off the liferace residue)
		// the database runs its pool once and stops it at Close: lifecycle calls racing with each
		// other or with Send are C16's subject (mode liferace/seqlife there), not a use of one DB handle
		for pc.Mode != "normal" {
			pc = (propC16{}).Gen(r, idx*3+1, tier).(PoolCase)
		}
		for i := range pc.Phases {
			pc.Phases[i].StopDuring = false
		}
		pc.Sched = c.Sched
		c.Pool = &pc
	}
	return c
}

func (propC15) Decode(b json.RawMessage) (any, error) {
	var c RaceCase
	err := json.Unmarshal(b, &c)
	return c, err
}

func (propC15) Shrink(x any) []any {
	c := x.(RaceCase)
	var out []any
	if len(c.Clients) > 2 {
		for i := range c.Clients {
			d := c
			d.Clients = append(append([][]Op(nil), c.Clients[:i]...), c.Clients[i+1:]...)
			for k := 0; k < 4; k++ {
				e := d
				e.Sched.Seed = simrt.Mix(d.Sched.Seed + uint64(k))
				out = append(out, e)
			}
		}
	}
	return out
}

// ---- race report capture -------------------------------------------------------------------------

type raceLog struct {
	path string
	off  int64
}

func openRaceLog() *raceLog {
	// GORACE log_path=<p> makes the runtime write to <p>.<pid>
	gr := os.Getenv("GORACE")
	for _, f := range strings.Fields(gr) {
		if strings.HasPrefix(f, "log_path=") {
			return &raceLog{path: fmt.Sprintf("%s.%d", strings.TrimPrefix(f, "log_path="), os.Getpid())}
		}
	}
	return nil
}

func (l *raceLog) newReports() []string {
	if l == nil {
		return nil
	}
	b, err := os.ReadFile(l.path)
	if err != nil || int64(len(b)) <= l.off {
		return nil
	}
	txt := string(b[l.off:])
	l.off = int64(len(b))
	var reps []string
	for _, part := range strings.Split(txt, "==================") {
		if strings.Contains(part, "WARNING: DATA RACE") {
			reps = append(reps, part)
		}
	}
	return reps
}

// raceSites extracts, for each of the two conflicting accesses of a report, the innermost frame
// that belongs to fs_db proper (not the harness, not the simulator shims).
func raceSites(rep string) (sites []string, shim bool) {
	lines := strings.Split(rep, "\n")
	inAccess := false
	var cur string
	top := true
	flush := func() {
		if inAccess {
			sites = append(sites, cur)
		}
	}
	isShim := func(fn string) bool {
		return strings.Contains(fn, "/internal/verif/") && !strings.Contains(fn, "/internal/verif/containers/")
	}
	for _, l := range lines {
		t := strings.TrimSpace(l)
		switch {
		case strings.HasPrefix(t, "Read at ") || strings.HasPrefix(t, "Write at ") || strings.HasPrefix(t, "Previous read at ") || strings.HasPrefix(t, "Previous write at ") ||
			strings.HasPrefix(t, "Atomic read at ") || strings.HasPrefix(t, "Atomic write at ") || strings.HasPrefix(t, "Previous atomic read at ") || strings.HasPrefix(t, "Previous atomic write at "):
			flush()
			inAccess, cur, top = true, "", true
		case strings.HasPrefix(t, "Goroutine ") || strings.HasPrefix(t, "Mutex "):
			flush()
			inAccess = false
		default:
			if !inAccess || t == "" || strings.HasPrefix(t, "/") {
				continue
			}
			fn := t
			if i := strings.LastIndex(fn, "("); i > 0 {
				fn = fn[:i]
			}
			if top {
				// the innermost frame that is neither the Go runtime (map/slice helpers report on
				// behalf of their caller) nor the transparent map-iteration helper
				if strings.HasPrefix(fn, "runtime.") || strings.Contains(fn, "/simrt.MapIter") || strings.Contains(fn, "/simrt.sortKeys") {
					continue
				}
				top = false
				if isShim(fn) {
					shim = true // the conflicting access itself is simulator/harness bookkeeping
				}
			}
			if cur == "" && strings.HasPrefix(fn, "github.com/glebziz/fs_db") && !isShim(fn) {
				cur = strings.TrimPrefix(fn, "github.com/glebziz/fs_db/")
				cur = strings.Replace(cur, "internal/verif/containers/", "containers/", 1)
				// closures: func1.2 numbering changes with unrelated edits
				for strings.Contains(cur, ".func") {
					cur = cur[:strings.LastIndex(cur, ".func")]
				}
			}
		}
	}
	flush()
	return
}

var raceSelfChecked bool

// raceSelfCheck proves on this very binary that the hand-off is invisible to the detector: two
// managed goroutines increment a plain counter; the detector must report it.
func raceSelfCheck(rl *raceLog) string {
	if rl == nil {
		return "GORACE log_path is not set"
	}
	rl.newReports()
	counter := 0
	simrt.Run(simrt.Config{Seed: 7, Strategy: "uniform", MaxSteps: 10000}, func() {
		var wg simrt.WaitGroup
		for i := 0; i < 2; i++ {
			wg.Add(1)
			simrt.GoNamed("selfcheck", 0, func() {
				defer wg.Done()
				for k := 0; k < 3; k++ {
					simrt.Yield("selfcheck")
					counter++
				}
			})
		}
		wg.Wait()
	})
	time.Sleep(10 * time.Millisecond)
	for _, r := range rl.newReports() {
		if strings.Contains(r, "raceSelfCheck") {
			return ""
		}
	}
	return "the race detector did not report the unsynchronised counter of the self-check: the scheduler hand-off is visible to it (or the binary was not built with -race)"
}

func (propC15) Exec(x any, choices []int32) RunOut {
	c := x.(RaceCase)
	out := RunOut{Probes: map[string]uint64{}, Faults: map[string]uint64{}}
	rl := openRaceLog()
	if !simrt.PipeHandoff {
		out.Infra = "C15 needs the race flavour (build tags verif,simpipe and -race)"
		return out
	}
	if !raceSelfChecked {
		if msg := raceSelfCheck(rl); msg != "" {
			out.Infra = msg
			return out
		}
		raceSelfChecked = true
	}
	rl.newReports()
	var res simrt.Result
	var infra string
	if c.Kind == "pool" {
		po := (propC16{}).Exec(*c.Pool, choices)
		out.Steps, out.Switches, out.TraceHash, out.SwitchHash, out.Choices = po.Steps, po.Switches, po.TraceHash, po.SwitchHash, po.Choices
		out.MustExit = po.MustExit
		out.NonTrivial = po.Switches >= 4
	} else {
		var w *World
		res = simrt.Run(c.Sched.config(choices), func() {
			var err error
			w, err = NewWorld(c.World, c.Sched.Seed)
			if err != nil {
				infra = err.Error()
				return
			}
			if err := w.Open(); err != nil {
				infra = "open: " + err.Error()
				return
			}
			init := &actors{db: w.DB, txs: map[int]fs_db.Tx{}}
			for _, o := range c.Init {
				init.apply(w.Ctx, o)
			}
			if c.Reopen {
				if err := w.Close(); err != nil {
					infra = "close: " + err.Error()
					return
				}
				if err := w.Open(); err != nil {
					infra = "reopen: " + err.Error()
					return
				}
			}
			if c.ReadDirFaults > 0 && w.Disk != nil {
				w.Disk.FailReadDirs = c.ReadDirFaults
			}
			var wg simrt.WaitGroup
			for i, ops := range c.Clients {
				wg.Add(1)
				ops := ops
				simrt.GoNamed(fmt.Sprintf("client%d", i+1), 0, func() {
					defer wg.Done()
					a := &actors{db: w.DB, txs: map[int]fs_db.Tx{}} // nothing shared between clients
					for _, o := range ops {
						switch o.K {
						case "gc":
							w.GCDirect()
						case "gctimer":
							w.GCTimer()
						case "yield":
							for k := 0; k < o.N; k++ {
								simrt.Yield("client.pause")
							}
						default:
							a.apply(w.Ctx, o)
						}
					}
				})
			}
			wg.Wait()
			w.Drain()
			w.Close()
		})
		if w != nil {
			w.Destroy()
		}
		out.Steps, out.Switches, out.TimerFires, out.SimNs = res.Steps, res.Switches, res.TimerFires, res.SimTimeNs
		out.TraceHash, out.SwitchHash, out.Choices, out.Log = res.TraceHash, res.SwitchHash, res.Choices, res.Log
		out.NonTrivial = len(c.Clients) >= 2 && res.Switches >= 4
	}
	b, _ := json.Marshal(c)
	h := fnv.New64a()
	h.Write(b)
	out.CaseHash = h.Sum64() ^ out.SwitchHash
	out.Sample, _ = json.Marshal(map[string]any{"kind": c.Kind, "clients": len(c.Clients), "steps": out.Steps, "switches": out.Switches})
	out.Probes["kind:"+c.Kind]++
	if infra != "" {
		out.Infra = infra
		out.MustExit = true
		return out
	}
	if c.Kind != "pool" {
		// deadlocks/panics here are C06's and C16's business; they only end the run
		switch res.Status {
		case simrt.StatusOK:
		case simrt.StatusStepLimit:
			out.Inconclusive = "steplimit"
			out.MustExit = true
		default:
			out.Inconclusive = "run-ended-" + res.Status.String()
			out.MustExit = true
		}
		if res.Leaked != 0 {
			out.MustExit = true
		}
	}
	time.Sleep(time.Millisecond) // the runtime writes reports synchronously; be generous anyway
	var sigs []string
	var first string
	for _, rep := range rl.newReports() {
		sites, shim := raceSites(rep)
		var s []string
		relevant := false
		if shim {
			out.Probes["race-report-in-harness-only"]++
			continue
		}
		for _, x := range sites {
			if x == "" {
				s = append(s, "-")
			} else {
				s = append(s, x)
				relevant = true
			}
		}
		if !relevant {
			out.Probes["race-report-in-harness-only"]++
			continue
		}
		sort.Strings(s)
		sig := "C15|data-race|" + strings.Join(s, " <-> ")
		sigs = append(sigs, sig)
		if first == "" {
			first = rep
		}
	}
	if len(sigs) > 0 {
		sort.Strings(sigs)
		out.Probes["race-reports"] = uint64(len(sigs))
		out.Violation = &Violation{Class: "data-race", Signature: sigs[0], Detail: strings.TrimSpace(first)}
		// every distinct pair of this run is recorded in the detail, the first is the signature
		seen := map[string]bool{sigs[0]: true}
		for i, s := range sigs {
			if !seen[s] {
				seen[s] = true
				out.Also = append(out.Also, Violation{Class: "data-race", Signature: s, Detail: "reported in the same run as " + sigs[0] + " (report " + fmt.Sprint(i) + ")"})
			}
		}
	}
	return out
}

var _ = wpool.New
