package harness

import (
	"encoding/json"
	"fmt"
	"math"
	"path/filepath"
	"strings"
	"time"

	"github.com/glebziz/fs_db"
	"github.com/glebziz/fs_db/internal/verif/simrt"
)

var newSimGrpcClient func(w *World) fs_db.DB

// seqProp is a property decided by sequential histories on the whole inline database.
type seqProp struct {
	id   string
	rule string
	runs [2]int // quick, thorough
	gen  func(r *simrt.Rand, idx int, tier string) SeqCase
}

func (p seqProp) ID() string    { return p.id }
func (p seqProp) Level() string { return "exploration" }
func (p seqProp) Rule() string  { return p.rule }
func (p seqProp) Assumptions() []string {
	return []string{
		"strategy seq-bg: one foreground client; the database's own goroutines (pool workers, deferred-send flusher, GC timer loop) run at operation boundaries for a seeded number of steps, to quiescence, or not at all, and whenever the client has to wait for them; background work overlapping a foreground operation is C06's subject",
		"Badger, the Go runtime and the kernel file system are trusted; contents live on tmpfs",
		"the reference model is transcribed from the statements of C01-C03/C13, with one documented relaxation (ReadUncommitted: a value committed after a younger uncommitted write may or may not count as more recent)",
	}
}
func (p seqProp) RealStub() map[string]string {
	return map[string]string{
		"pkg/inline, use cases (store, transaction, cleaner, dir, core), version lists, repositories": "real (sync/atomic/time/context/select rewritten to the simulator)",
		"Badger":                  "real, behind the simbadger seam (decision points, mutation counter, injectable update failure)",
		"content files":           "real files on tmpfs behind the project's os seam (simos: decision points, capacity, ENOSPC)",
		"worker pool, GC timer":   "real code on the simulated clock",
		"disk free space":         "simulated (simdisk)",
		"uuid / DI random source": "seeded from the run's PRNG",
	}
}
func (p seqProp) Runs(tier string) int {
	if tier == "thorough" {
		return p.runs[1]
	}
	return p.runs[0]
}
func (p seqProp) Gen(r *simrt.Rand, idx int, tier string) any { return p.gen(r, idx, tier) }
func (p seqProp) Exec(c any, choices []int32) RunOut          { return seqExec(c.(SeqCase), choices) }
func (p seqProp) Decode(b json.RawMessage) (any, error) {
	var c SeqCase
	err := json.Unmarshal(b, &c)
	return c, err
}

// Shrink drops operations (a dropped begin takes the operations of its transaction with it).
func (p seqProp) Shrink(x any) []any {
	c := x.(SeqCase)
	var out []any
	n := len(c.Ops)
	try := func(drop func(i int, o Op) bool) {
		d := c
		d.Ops = nil
		d.FaultOps = nil
		for i, o := range c.Ops {
			if drop(i, o) {
				continue
			}
			for _, f := range c.FaultOps {
				if f == i {
					d.FaultOps = append(d.FaultOps, len(d.Ops))
				}
			}
			d.Ops = append(d.Ops, o)
		}
		if len(d.Ops) < n {
			out = append(out, d)
		}
	}
	// halves, quarters, then single ops from the end
	for _, parts := range []int{2, 4, 8} {
		for k := 0; k < parts; k++ {
			lo, hi := n*k/parts, n*(k+1)/parts
			dropTx := map[int]bool{}
			for i := lo; i < hi; i++ {
				if c.Ops[i].K == "begin" {
					dropTx[c.Ops[i].Tx] = true
				}
			}
			try(func(i int, o Op) bool { return (i >= lo && i < hi) || (o.Tx > 0 && dropTx[o.Tx]) })
		}
	}
	for i := n - 1; i >= 0 && len(out) < 120; i-- {
		i := i
		tx := 0
		if c.Ops[i].K == "begin" {
			tx = c.Ops[i].Tx
		}
		try(func(j int, o Op) bool { return j == i || (tx > 0 && o.Tx == tx) })
	}
	return out
}

func init() {
	Register(seqProp{id: "C01",
		rule: "one case in five thousand is a marathon (16 400-17 300 writes in one process before the earliest keys are read again); every 6th case runs on 2-3 nearly full simulated disks (writes are retried on another root or fail with ErrNoFreeSpace and are then not applied); cases: seeded sequential histories (10-40 steps) of Set/SetReader (5 reader shapes)/Create+Write*+Close/Get/GetReader/GetKeys/Delete over 2-5 keys (ASCII, multi-byte, long, with slash), contents 0..200 KiB incl. 2047-2049, 32767-32769, 65537; empty-key Set and never-written Get; collector (direct and timer), background windows and drains at boundaries; distinct = hash(ops, switch trace); non-trivial = some key is written at least twice (overwrite or delete/re-create)",
		runs: [2]int{15000, 250000},
		gen: func(r *simrt.Rand, idx int, tier string) SeqCase {
			if idx%5003 == 77 {
				return genMarathon(r, "C01")
			}
			c := genSeqCase(r, seqProfile{prop: "C01", steps: [2]int{10, 40}, keys: [2]int{2, 5}, ctlWeight: 12, emptyKey: true, big: true, readback: "auto", deleteHeavy: r.Intn(2) == 0, held: 4, heldW: 4})
			if idx%6 == 5 {
				// nearly full disks: writes are retried on other roots or fail with ErrNoFreeSpace
				// (then they are not applied); whatever is reported successful must still read back exactly
				c.World.Roots = nil
				for i := 0; i < 2+r.Intn(2); i++ {
					capacity := int64(20000 + r.Intn(150000))
					c.World.Roots = append(c.World.Roots, RootSpec{Reported: capacity, Real: capacity, Partial: r.Intn(2) == 0})
				}
			}
			return c
		}})
	Register(seqProp{id: "C02",
		rule: "cases: one driver interleaves up to 6 open transactions (all four levels) and autocommit calls: Begin/Set/Delete/Get/GetKeys/Commit/Rollback, 2-4 keys, 15-60 steps, collector/timer/background windows at boundaries; every 5th case is a deep chain (1-2 keys, 150-1500 versions, snapshot transactions begun at many points, collector in between); every 6th case fails the storage update of one write inside a transaction (half of them the first write of its transaction; before its function runs or at its commit step); after every data step every open transaction and the autocommit caller read every key and GetKeys; distinct = hash(ops, switch trace); non-trivial = at least two transactions and two writes",
		runs: [2]int{5000, 160000},
		gen: func(r *simrt.Rand, idx int, tier string) SeqCase {
			if idx%5 == 4 {
				n := 150 + r.Intn(350)
				if tier == "thorough" && idx%25 == 4 {
					n = 800 + r.Intn(700)
				}
				return genDeepChain(r, "C02", n)
			}
			c := genSeqCase(r, seqProfile{prop: "C02", steps: [2]int{15, 60}, keys: [2]int{2, 4}, maxTx: 6, txWeight: 70, ctlWeight: 12, readback: "all", held: 3, heldW: 3})
			if idx%6 == 3 {
				// the storage update of one write inside a transaction fails (half of the time the
				// first write of its transaction): the write is not applied, the transaction stays
				// usable, and nobody's view may change because of it
				var first, any []int
				seen := map[int]bool{}
				for i, o := range c.Ops {
					if (o.K == "set" || o.K == "del") && o.Key != "" && o.Tx > 0 {
						any = append(any, i)
						if !seen[o.Tx] {
							first = append(first, i)
						}
						seen[o.Tx] = true
					}
					if o.K == "commit" || o.K == "rollback" {
						delete(seen, o.Tx)
					}
				}
				cand := any
				if idx%12 == 3 && len(first) > 0 {
					cand = first
				}
				if len(cand) > 0 {
					c.FaultOps = []int{cand[r.Intn(len(cand))]}
					c.FaultLate = idx%24 >= 12
				}
			}
			return c
		}})
	Register(seqProp{id: "C03",
		rule: "cases: as C02 but biased to overlapping write sets (2/3 of writes hit one key), several writes per key inside a transaction, deletes, autocommit writes between Begin and Commit; every 4th case injects a Badger update failure into one commit or autocommit write; one case in 500 is a single conflict-free transaction of 400-800 writes under keys of 2-4 KiB, one in 5000 one of 12 000-16 000 writes and deletes (its Commit must succeed); checked: error class of every Commit/Rollback against the model (serialization error iff a written key has a newer committed version) and a read-back of all keys by all actors after every step; non-trivial = at least one transaction and two writes",
		runs: [2]int{10000, 160000},
		gen: func(r *simrt.Rand, idx int, tier string) SeqCase {
			if idx%500 == 333 || idx%5003 == 334 {
				return genBigCommit(r, idx%5003 == 334)
			}
			c := genSeqCase(r, seqProfile{prop: "C03", steps: [2]int{15, 50}, keys: [2]int{2, 3}, maxTx: 5, txWeight: 75, ctlWeight: 6, readback: "all", overlap: true, levels: []int{0, 1, 2, 2, 3, 3}})
			if idx%4 == 3 {
				// fail the storage update of one commit / write
				var cand []int
				for i, o := range c.Ops {
					if o.K == "commit" || ((o.K == "set" || o.K == "del") && o.Key != "") {
						cand = append(cand, i)
					}
				}
				if len(cand) > 0 {
					c.FaultOps = []int{cand[r.Intn(len(cand))]}
					c.FaultLate = idx%8 == 7 // every other one fails at the commit step of the storage transaction
				}
			}
			return c
		}})
	Register(propC09{seqProp{id: "C09",
		rule: "three quarters of the cases: C02-style sequential histories in which the collector runs 1-3 times after (almost) every step, half of the time followed by a drain to exact quiescence (physical deletions done), with snapshot transactions of different ages open and right after Begin; every 4th case is a deep chain; the all-actors read-back after each collector run must equal the model (which ignores the collector), and so must the rest of the history; one quarter: concurrent programs with a collector actor, half of them snapshot readers that begin during the run and read everything twice, multi-key committers and autocommit writers judged by C08's interval rules, half of them autocommit/ReadUncommitted/ReadCommitted readers of one key that a writer keeps overwriting, judged by C06's rules (no foreign content, never ErrNotFound for a key that is never deleted, linearizable); non-trivial = a collector run happened with an overwritten key present (sequential) / client operations overlapped (concurrent)",
		runs: [2]int{4000, 160000},
		gen: func(r *simrt.Rand, idx int, tier string) SeqCase {
			if idx%4 == 3 {
				return genDeepChain(r, "C09", 100+r.Intn(300))
			}
			return genSeqCase(r, seqProfile{prop: "C09", steps: [2]int{20, 70}, keys: [2]int{2, 3}, maxTx: 5, txWeight: 65, gcEvery: true, readback: "all", held: 6, heldW: 3, big: true})
		}}})
	Register(seqProp{id: "C13",
		rule: "cases: C02-style histories in which ended transaction handles (after Commit, failed Commit, Rollback, and after a reopen) keep being used for Get/GetReader/GetKeys/Set/SetReader/Create/Delete/Commit/Rollback in seeded order while observers of all levels are open; one case in 400: 1000-8200 transactions begin and end on one open database before the handles of the last ones and of a sample are used again; every late call except Rollback must return ErrTxNotFound (Rollback nil) and no observer's read-back may change; non-trivial = at least one late call was made",
		runs: [2]int{4000, 160000},
		gen: func(r *simrt.Rand, idx int, tier string) SeqCase {
			rp := 0
			if idx%3 == 0 {
				rp = 3
			}
			if idx%400 == 57 {
				return genManyEnded(r)
			}
			return genSeqCase(r, seqProfile{prop: "C13", steps: [2]int{20, 60}, keys: [2]int{2, 3}, maxTx: 5, txWeight: 65, ctlWeight: 4, late: true, reopen: rp, readback: "all"})
		}})
	Register(propC14{seqProp{id: "C14",
		rule: "three quarters of the cases: fault-free sequential histories of autocommit and transactional writes, deletes, commits, failed commits and rollbacks (15-60 steps, contents up to 200 KiB), optional reopen with jobs still queued; in every tenth history one key of 65 536-100 000 bytes; in every fifth history a Begin naming an isolation level that does not exist (accepted and rolled back, or refused); one case in a hundred: a transaction leaving 1000-2600 contents behind at once; one in a hundred: a backlog of 1100-8200 versions becoming collectable between two collector passes (optionally held back by an old snapshot transaction until the end); then all transactions are ended, the world runs to exact quiescence, one collection pass, quiescence; one quarter: small concurrent programs (the generators of C06 and C07) under seeded schedules, then the same end game; oracle: the regular files under all roots are in bijection with the keys GetKeys returns and byte-equal to their contents; non-trivial = some key written at least twice (sequential) / client operations overlapped (concurrent)",
		runs: [2]int{10000, 160000},
		gen: func(r *simrt.Rand, idx int, tier string) SeqCase {
			rp := 0
			if idx%3 == 0 {
				rp = 4
			}
			return genSeqCase(r, seqProfile{prop: "C14", steps: [2]int{15, 60}, keys: [2]int{2, 4}, maxTx: 4, txWeight: 55, ctlWeight: 8, reopen: rp, big: true, readback: "auto", walk: "final", deleteHeavy: r.Intn(2) == 0, overlap: r.Intn(2) == 0, heldW: 3})
		}}})
	Register(seqProp{id: "C17",
		rule: "cases: 150-600 tiny writes interleaved with deletes, collector runs, drains and reopenings, directory limit at its clamp (config values 0-150 generated; every tenth case a limit of 256-513 with that many writes in a row and more), 1-3 roots; in a third of the cases the creation of a directory fails now and then, in another third the listing of a directory that is full fails (EIO) at the moment it is due to be rotated out; after every step a walk of the roots: every regular file at root/<uuid>/<uuid>, a uuid directory per root once a write was attempted, no directory above the limit, a directory that was full and regained room receives a new file before the chance of a uniform choice among the directories below the limit missing it that long falls under 1e-12 (about 70 writes with 3 candidates, 210 with 8); non-trivial = at least 100 writes (directories rotate)",
		runs: [2]int{600, 20000},
		gen: func(r *simrt.Rand, idx int, tier string) SeqCase {
			c := genSeqCase(r, seqProfile{prop: "C17", steps: [2]int{150, 600}, keys: [2]int{4, 8}, ctlWeight: 6, reopen: 1, readback: "none", walk: "shape", deleteHeavy: idx%2 == 0})
			if idx%2 == 0 {
				// a tail of writes after the mixed phase: a directory that regained room late still
				// has its 200 writes to be chosen again
				id := uint64(700000)
				c.Ops = append(c.Ops, Op{K: "gc", N: 1}, Op{K: "drain"})
				for k := 0; k < 240; k++ {
					id++
					c.Ops = append(c.Ops, Op{K: "set", Key: c.Keys[r.Intn(len(c.Keys))], ID: id, Size: 1 + r.Intn(16)})
					if k%60 == 59 {
						c.Ops = append(c.Ops, Op{K: "gc", N: 1}, Op{K: "drain"})
					}
				}
			}
			if idx%2 == 1 {
				// many live keys: directories stay full (several per root at the same time), also across reopenings
				for i := 0; i < 400; i++ {
					c.Keys = append(c.Keys, fmt.Sprintf("k%03d", i))
				}
				for i := range c.Ops {
					if c.Ops[i].Key != "" && c.Ops[i].Key != "never-written" && r.Intn(10) > 0 {
						c.Ops[i].Key = c.Keys[len(c.Keys)-400+r.Intn(400)]
					}
				}
				c.World.Roots = c.World.Roots[:1+r.Intn(min(2, len(c.World.Roots)))]
				// and reopenings once several directories have filled up, followed by more writes
				id := uint64(500000)
				for round := 0; round < 2; round++ {
					for k := 0; k < 120+r.Intn(120); k++ {
						id++
						c.Ops = append(c.Ops, Op{K: "set", Key: c.Keys[len(c.Keys)-400+r.Intn(400)], ID: id, Size: 1 + r.Intn(16)})
					}
					c.Ops = append(c.Ops, Op{K: "reopen"})
					for k := 0; k < 5+r.Intn(30); k++ {
						id++
						c.Ops = append(c.Ops, Op{K: "set", Key: c.Keys[len(c.Keys)-400+r.Intn(400)], ID: id, Size: 1 + r.Intn(16)})
					}
				}
			}
			if idx%3 == 2 {
				// the creation of a directory fails now and then (it fires in the write that rotates
				// a full directory out): that write fails, the following ones must work again
				for k := 0; k < 1+r.Intn(3); k++ {
					c.MkdirFaultAt = append(c.MkdirFaultAt, 20+r.Intn(len(c.Ops)-20))
				}
			}
			if idx%3 == 1 {
				// a full directory cannot be listed at the moment it is due to be rotated out (EIO
				// on its ReadDir): the write that meets this fails or goes elsewhere, and the directory
				// must not grow beyond its limit
				for k := 0; k < 2+r.Intn(3); k++ {
					c.ReadDirFullAt = append(c.ReadDirFullAt, 20+r.Intn(len(c.Ops)-20))
				}
			}
			if len(c.World.Roots) >= 2 && idx%4 == 0 {
				// an operator takes a root out of the configuration: from the next reopen on nothing
				// new may be put there (what it holds stays readable and is collected as usual)
				at := len(c.Ops)/3 + r.Intn(len(c.Ops)/3)
				drop := Op{K: "reopen", N: 1 + r.Intn(len(c.World.Roots))}
				c.Ops = append(c.Ops[:at], append([]Op{{K: "drain"}, drop}, c.Ops[at:]...)...)
				for i := range c.MkdirFaultAt {
					if c.MkdirFaultAt[i] >= at {
						c.MkdirFaultAt[i] += 2
					}
				}
				for i := range c.ReadDirFullAt {
					if c.ReadDirFullAt[i] >= at {
						c.ReadDirFullAt[i] += 2
					}
				}
			}
			c.World.MaxDirCount = []uint64{0, 1, 50, 99, 100, 100, 101, 150}[r.Intn(8)]
			if idx%10 == 7 {
				// the operator lowers the directory limit: a history under a limit of 250-400 fills a
				// directory well beyond 100, then the database is reopened with the limit at its clamp and
				// written on - the directory may keep what it holds, it must not grow
				c.World.MaxDirCount = uint64(250 + r.Intn(150))
				c.World.Roots = c.World.Roots[:1]
				id := uint64(800000)
				for k := 0; k < 130+r.Intn(100); k++ {
					id++
					c.Ops = append(c.Ops, Op{K: "set", Key: fmt.Sprintf("fill-%04d", k), ID: id, Size: 1 + r.Intn(16)})
				}
				c.Ops = append(c.Ops, Op{K: "drain"}, Op{K: "reopen", Size: 100})
				for k := 0; k < 40+r.Intn(60); k++ {
					id++
					c.Ops = append(c.Ops, Op{K: "set", Key: fmt.Sprintf("more-%04d", k), ID: id, Size: 1 + r.Intn(16)})
				}
				for i := range c.Ops {
					if c.Ops[i].Size > 0 && c.Ops[i].K != "reopen" {
						c.Ops[i].Size = 1 + c.Ops[i].Size%16
						if c.Ops[i].K == "create" {
							c.Ops[i].Writes = []int{c.Ops[i].Size}
						}
					}
				}
				c.World.RootStyle = 0
				return c
			}
			if idx%10 == 3 {
				// a limit well above the clamp, and enough writes in a row (nothing deleted in between)
				// for one directory to reach it
				c.World.MaxDirCount = []uint64{256, 257, 300, 511, 513}[r.Intn(5)]
				c.World.Roots = c.World.Roots[:1]
				id := uint64(800000)
				for k := 0; k < int(c.World.MaxDirCount)+40+r.Intn(60); k++ {
					id++
					c.Ops = append(c.Ops, Op{K: "set", Key: fmt.Sprintf("fill-%04d", k), ID: id, Size: 1 + r.Intn(16)})
				}
			}
			c.World.RootStyle = []int{0, 0, 1, 2, 3}[r.Intn(5)] // roots as an operator might spell them
			for i := range c.Ops {
				if c.Ops[i].Size > 0 {
					c.Ops[i].Size = 1 + c.Ops[i].Size%16
					if c.Ops[i].K == "create" {
						c.Ops[i].Writes = []int{c.Ops[i].Size}
					}
				}
			}
			return c
		}})
}

// propC09: three quarters sequential histories with the collector at every boundary, one quarter
// concurrent programs in which the collector (direct and timer) overlaps Begin, reads and commits
// of snapshot transactions (C08's generator and interval rules): the collector must not change
// what any open transaction reads, whenever it runs.
type propC09 struct{ seqProp }

type C09Case struct {
	Seq     *SeqCase  `json:"seq,omitempty"`
	Conc    *ConcCase `json:"conc,omitempty"`
	Readers bool      `json:"readers,omitempty"` // Conc comes from genC09Readers and is judged by C06's rules
}

// genC09Readers: autocommit (and ReadCommitted) readers of one hot key, a writer that keeps
// overwriting it, and a collector actor that runs again and again in between: whenever the
// collector runs, no read may lose the key or see anything but a value that was current during it.
func genC09Readers(r *simrt.Rand) ConcCase {
	c := ConcCase{Prop: "C09", Final: true}
	c.World = genConcWorld(r)
	c.Keys = genKeys(r, 1, 2)
	hot := c.Keys[0]
	id := uint64(0)
	for _, k := range c.Keys {
		id++
		c.Init = append(c.Init, Op{K: "set", Key: k, ID: id, Size: smallSize(r)})
	}
	var w []Op
	for i := 0; i < 2+r.Intn(4); i++ {
		id++
		w = append(w, Op{K: "set", Key: hot, ID: id, Size: smallSize(r)})
		if r.Intn(2) == 0 {
			w = append(w, Op{K: "gc"})
		}
		if r.Intn(3) == 0 {
			w = append(w, Op{K: "yield", N: r.Intn(30)})
		}
	}
	c.Clients = append(c.Clients, w)
	for n := 0; n < 1+r.Intn(2); n++ {
		var rd []Op
		tx := 0
		if r.Intn(3) == 0 {
			tx = n + 1
			rd = append(rd, Op{K: "begin", Tx: tx, Level: r.Intn(2)})
		}
		for i := 0; i < 3+r.Intn(4); i++ {
			k := "get"
			switch r.Intn(6) {
			case 0:
				k = "getr"
			case 1, 2:
				k = "keys" // the key listing goes from the version lists to the content records, too
			}
			if k == "keys" {
				rd = append(rd, Op{K: k, Tx: tx})
			} else {
				rd = append(rd, Op{K: k, Tx: tx, Key: hot})
			}
			if r.Intn(3) == 0 {
				rd = append(rd, Op{K: "yield", N: r.Intn(20)})
			}
		}
		if tx > 0 {
			rd = append(rd, Op{K: "commit", Tx: tx})
		}
		c.Clients = append(c.Clients, rd)
	}
	g := []Op{{K: "gc"}}
	for i := 0; i < 1+r.Intn(4); i++ {
		g = append(g, Op{K: "yield", N: r.Intn(40)}, Op{K: []string{"gc", "gc", "gctimer"}[r.Intn(3)]})
	}
	c.Clients = append(c.Clients, g)
	c.Sched = genSched(r, 700)
	c.Sched.MaxSteps = 600_000
	return c
}

func (p propC09) Gen(r *simrt.Rand, idx int, tier string) any {
	if idx%8 == 5 {
		c := genC09Readers(r)
		return C09Case{Conc: &c, Readers: true}
	}
	if idx%4 == 1 {
		c := genC08(r, idx, tier)
		c.Prop = "C09"
		// always with a collector actor
		hasGC := false
		for _, cl := range c.Clients {
			for _, o := range cl {
				if o.K == "gc" || o.K == "gctimer" {
					hasGC = true
				}
			}
		}
		if !hasGC {
			c.Clients = append(c.Clients, []Op{{K: "gc"}, {K: "yield", N: r.Intn(40)}, {K: "gctimer"}, {K: "gc"}})
		}
		return C09Case{Conc: &c}
	}
	c := p.seqProp.gen(r, idx, tier)
	return C09Case{Seq: &c}
}
func (p propC09) Decode(b json.RawMessage) (any, error) {
	var c C09Case
	err := json.Unmarshal(b, &c)
	return c, err
}
func (p propC09) Exec(x any, choices []int32) RunOut {
	c := x.(C09Case)
	if c.Seq != nil {
		return seqExec(*c.Seq, choices)
	}
	out, cr := concExec(*c.Conc, choices)
	if out.Violation != nil || out.Infra != "" || out.Inconclusive != "" {
		return out
	}
	out.NonTrivial = cr.overlaps() > 0
	if c.Readers {
		if v := checkC06(*c.Conc, cr, &out); v != nil {
			v.Signature = "C09" + strings.TrimPrefix(v.Signature, "C06") + ",collector-concurrent"
			v.Detail += "\nhistory (event numbers):\n" + cr.histText(60)
			out.Violation = v
		}
		return out
	}
	if v := checkC08(*c.Conc, cr, &out); v != nil {
		v.Signature = "C09" + strings.TrimPrefix(v.Signature, "C08") + ",collector-concurrent"
		v.Detail += "\nhistory (event numbers):\n" + cr.histText(60)
		out.Violation = v
	}
	return out
}
func (p propC09) Shrink(x any) []any {
	c := x.(C09Case)
	var out []any
	if c.Seq != nil {
		for _, s := range p.seqProp.Shrink(*c.Seq) {
			sc := s.(SeqCase)
			out = append(out, C09Case{Seq: &sc})
		}
		return out
	}
	for _, d := range concShrink(*c.Conc) {
		d := d
		out = append(out, C09Case{Conc: &d, Readers: c.Readers})
	}
	return out
}

// propC14: three quarters sequential histories, one quarter small concurrent programs (C06's
// and C07's generators) followed by the same exact-quiescence directory walk.
type propC14 struct{ seqProp }

type C14Case struct {
	Seq  *SeqCase  `json:"seq,omitempty"`
	Conc *ConcCase `json:"conc,omitempty"`
}

func (p propC14) Gen(r *simrt.Rand, idx int, tier string) any {
	if idx%4 == 3 {
		var c ConcCase
		if idx%8 == 3 {
			c = genC06(r, idx, tier)
		} else {
			c = genC07(r, idx, tier)
		}
		c.Prop, c.Walk = "C14", true
		return C14Case{Conc: &c}
	}
	if idx%100 == 9 {
		// one transaction leaves more than a thousand contents behind at once: rolled back, refused,
		// or committed after overwriting its own writes (lists longer than any batch size the
		// clean-up might use)
		c := SeqCase{Prop: "C14", ReadBack: "none", Walk: "final"}
		c.Sched = SchedSpec{Seed: r.Uint64(), Strategy: "seqbg", MaxSteps: 20_000_000}
		c.World = genWorldSpec(r)
		c.Keys = []string{"live"}
		c.Ops = append(c.Ops, Op{K: "set", Key: "live", ID: 1, Size: 20}, Op{K: "begin", Tx: 1, Level: r.Intn(4)})
		n := 1001 + r.Intn(1600)
		nk := n
		if r.Intn(2) == 0 {
			nk = 1 + r.Intn(40) // few keys, overwritten again and again inside the transaction
		}
		for i := 0; i < nk && i < 60; i++ {
			c.Keys = append(c.Keys, fmt.Sprintf("big-%04d", i))
		}
		for i := 0; i < n; i++ {
			c.Ops = append(c.Ops, Op{K: "set", Tx: 1, Key: fmt.Sprintf("big-%04d", i%nk), ID: uint64(10 + i), Size: 9 + i%7})
		}
		switch r.Intn(3) {
		case 0:
			c.Ops = append(c.Ops, Op{K: "rollback", Tx: 1})
		case 1:
			c.Ops = append(c.Ops, Op{K: "commit", Tx: 1})
		default:
			// a conflicting autocommit write first: at RepeatableRead/Serializable the commit is refused
			c.Ops = append(c.Ops, Op{K: "set", Key: "big-0000", ID: 5, Size: 30}, Op{K: "commit", Tx: 1})
		}
		c.Ops = append(c.Ops, Op{K: "drain"})
		return C14Case{Seq: &c}
	}
	if idx%100 == 58 {
		// a backlog: thousands of versions become collectable between two collector passes
		// (autocommit overwrites and deletes of a few keys; half of the time an old snapshot
		// transaction holds the collector back over the whole stretch and ends just before the end
		// game) - more than any per-pass budget the collector might have
		c := SeqCase{Prop: "C14", ReadBack: "none", Walk: "final"}
		c.Sched = SchedSpec{Seed: r.Uint64(), Strategy: "seqbg", MaxSteps: 40_000_000}
		c.World = genWorldSpec(r)
		c.World.GCPeriodNs = int64(time.Hour)
		nk := 1 + r.Intn(6)
		for i := 0; i < nk; i++ {
			c.Keys = append(c.Keys, fmt.Sprintf("hot-%d", i))
		}
		for i, k := range c.Keys {
			c.Ops = append(c.Ops, Op{K: "set", Key: k, ID: uint64(1 + i), Size: 12})
		}
		held := r.Intn(2) == 0
		if held {
			c.Ops = append(c.Ops, Op{K: "begin", Tx: 1, Level: 2 + r.Intn(2)}, Op{K: "get", Tx: 1, Key: c.Keys[0]})
		}
		n := []int{1100, 4001, 4100, 5000, 8200}[r.Intn(5)]
		for i := 0; i < n; i++ {
			k := c.Keys[r.Intn(nk)]
			if r.Intn(12) == 0 {
				c.Ops = append(c.Ops, Op{K: "del", Key: k})
			} else {
				c.Ops = append(c.Ops, Op{K: "set", Key: k, ID: uint64(100 + i), Size: 9 + i%7})
			}
			if held && i%1500 == 1499 {
				c.Ops = append(c.Ops, Op{K: "gc", N: 1}) // a pass that may collect nothing the snapshot needs
			}
		}
		if held {
			c.Ops = append(c.Ops, Op{K: []string{"commit", "rollback"}[r.Intn(2)], Tx: 1})
		}
		c.Ops = append(c.Ops, Op{K: "drain"})
		return C14Case{Seq: &c}
	}
	c := p.seqProp.gen(r, idx, tier)
	if idx%10 == 6 {
		// one of the keys is longer than anybody planned for (the inline client takes any string)
		long := strings.Repeat("L", []int{65536, 70000, 100000}[r.Intn(3)])
		c.Keys = append(c.Keys, long)
		for i := range c.Ops {
			if c.Ops[i].Key != "" && c.Ops[i].Key != "never-written" && r.Intn(4) == 0 {
				c.Ops[i].Key = long
			}
		}
	}
	if idx%5 == 2 && len(c.Ops) > 4 {
		// somewhere in the first half a Begin names an isolation level that does not exist; accepted
		// (and rolled back at once) or refused, it must not keep anything from being reclaimed later
		at := r.Intn(len(c.Ops) / 2)
		c.Ops = append(c.Ops[:at], append([]Op{{K: "beginbad", N: r.Intn(3)}}, c.Ops[at:]...)...)
		for i := range c.FaultOps {
			if c.FaultOps[i] >= at {
				c.FaultOps[i]++
			}
		}
	}
	if idx%8 == 1 && simGrpcAvailable() {
		// the same histories through the external client: every handler's context ends when its
		// call returns, while the deletions the call left behind are still queued
		c.Client = "simgrpc"
		for i := range c.Ops {
			if c.Ops[i].K == "reopen" {
				c.Ops[i] = Op{K: "drain"}
			}
		}
	}
	return C14Case{Seq: &c}
}
func (p propC14) Decode(b json.RawMessage) (any, error) {
	var c C14Case
	err := json.Unmarshal(b, &c)
	return c, err
}
func (p propC14) Exec(x any, choices []int32) RunOut {
	c := x.(C14Case)
	if c.Seq != nil {
		return seqExec(*c.Seq, choices)
	}
	out, cr := concExec(*c.Conc, choices)
	out.NonTrivial = cr.overlaps() > 0
	return out
}
func (p propC14) Shrink(x any) []any {
	c := x.(C14Case)
	var out []any
	if c.Seq != nil {
		for _, s := range p.seqProp.Shrink(*c.Seq) {
			sc := s.(SeqCase)
			out = append(out, C14Case{Seq: &sc})
		}
		return out
	}
	for _, d := range concShrink(*c.Conc) {
		d := d
		out = append(out, C14Case{Conc: &d})
	}
	return out
}

// walkShape is C17's oracle, evaluated after every step.
func (s *seqRun) walkShape(i int, o Op) {
	if s.viol != nil {
		return
	}
	limit := int(s.w.Spec.MaxDirCount)
	if limit < 100 {
		limit = 100
	}
	files, dirs, odd := s.w.walkRoots()
	_ = files
	if len(odd) > 0 {
		s.fail("dir-shape", "layout", fmt.Sprintf("after step %d (%s): %s", i, o, strings.Join(odd, "; ")))
		return
	}
	for i, root := range s.w.Roots {
		if !s.w.Dropped[i] {
			continue
		}
		for _, f := range files {
			if f.Root == root && !s.droppedFiles[f.Path] {
				s.fail("dir-shape", "outside-configured-roots", fmt.Sprintf("after step %d (%s): %s was created under %s, which is no longer a configured root", i, o, f.Path, root))
				return
			}
		}
	}
	isWrite := o.K == "set" || o.K == "setr" || o.K == "create"
	if isWrite && o.Key != "" {
		s.probes["writes"]++
		perRoot := map[string]int{}
		for d := range dirs {
			perRoot[filepath.Dir(d)]++
		}
		for ri, root := range s.w.Roots {
			if s.w.Dropped[ri] {
				continue
			}
			if perRoot[root] == 0 {
				s.fail("dir-shape", "root-without-dir", fmt.Sprintf("after step %d (%s): root %s offers no directory", i, o, root))
				return
			}
		}
	}
	// candidates of a fair choice: every directory below the limit (an upper bound on what the
	// implementation may choose from, hence a lower bound on the chance of any one of them)
	cand := 0
	for _, n := range dirs {
		if n < limit {
			cand++
		}
	}
	if cand < 2 {
		cand = 2
	}
	for d, n := range dirs {
		if n > limit && s.grandfathered[d] > 0 {
			// the limit was lowered at a reopen while this directory already held more: it may keep
			// what it has, it must not grow
			if n > s.grandfathered[d] {
				s.fail("dir-over-limit", "grew-above-a-lowered-limit", fmt.Sprintf("after step %d (%s): directory %s held %d entries when the limit was lowered to %d and now holds %d", i, o, d, s.grandfathered[d], limit, n))
				return
			}
			continue
		}
		if n > limit {
			s.fail("dir-over-limit", "count", fmt.Sprintf("after step %d (%s): directory %s holds %d entries, the limit is %d", i, o, d, n, limit))
			return
		}
		if n >= limit {
			if !s.dirSeenFull[d] {
				s.probes["dir-full"]++
			}
			s.dirSeenFull[d] = true
			s.forgetRegained(d)
		} else if s.dirSeenFull[d] {
			if old, ok := s.dirRegained[d]; !ok {
				s.dirRegained[d] = n
				s.writesSince[d] = 0
				s.probes["dir-regained-room"]++
			} else if n > old {
				// used again
				s.probes["dir-reused"]++
				s.dirSeenFull[d] = false
				s.forgetRegained(d)
			} else {
				if n < old {
					s.dirRegained[d] = n
				}
				if o.K == "drain" {
					// exact quiescence: every deletion that has taken a file out of this directory has
					// also finished telling the directory registry about it
					s.dirQuiesced[d] = true
				}
				if isWrite && o.Key != "" && s.dirQuiesced[d] {
					// writes count only once the world has been quiescent since the directory regained
					// room: a cleaner job may stay paused between removing the file and re-activating
					// the directory for as long as the scheduler pleases
					s.writesSince[d]++
					s.missLog[d] += math.Log(1 - 1/float64(cand))
				}
				if s.missLog[d] < -27.7 { // e^-27.7 < 1e-12
					active := "?"
					if ds, err := s.w.C.DirRepo().Get(s.w.Ctx); err == nil {
						active = ""
						for _, x := range ds {
							active += fmt.Sprintf(" %s(count=%d,free=%d)", filepath.Base(x.Path()), x.Count, x.Free)
						}
					}
					s.fail("dir-shape", "not-reused", fmt.Sprintf("after step %d: directory %s was full, regained room through deletions and received no new file in %d further writes; with the numbers of directories below the limit at those writes the chance of that under the uniform choice the code makes is below 1e-12; on disk: %v; directories the database currently offers:%s", i, d, s.writesSince[d], dirs, active))
					return
				}
			}
		}
	}
}

func (s *seqRun) forgetRegained(d string) {
	delete(s.dirRegained, d)
	delete(s.writesSince, d)
	delete(s.dirQuiesced, d)
	delete(s.missLog, d)
}

// genMarathon: one process, one database, a history far longer than any other: two keys written
// (one of them deleted) at the very beginning, then 16 400-17 300 tiny writes over a few hundred
// rotating keys with the collector in between, then the early keys, the listing and a sample of
// the others are read. Whatever counts, wraps or repeats per process (identifiers, counters,
// caches, thresholds in the thousands) gets the chance to.
func genMarathon(r *simrt.Rand, prop string) SeqCase {
	c := SeqCase{Prop: prop, ReadBack: "none"}
	c.Sched = SchedSpec{Seed: r.Uint64(), Strategy: "seqbg", MaxSteps: 400_000_000}
	c.World = genWorldSpec(r)
	c.World.GCPeriodNs = int64(time.Hour)
	c.Keys = []string{"first", "gone"}
	nk := 200 + r.Intn(300)
	key := func(i int) string { return fmt.Sprintf("m-%03d", i) }
	id := uint64(1)
	c.Ops = append(c.Ops, Op{K: "set", Key: "first", ID: id, Size: 15}, Op{K: "set", Key: "gone", ID: id + 1, Size: 16}, Op{K: "del", Key: "gone"})
	id += 2
	n := 16400 + r.Intn(900)
	for i := 0; i < n; i++ {
		id++
		c.Ops = append(c.Ops, Op{K: "set", Key: key(r.Intn(nk)), ID: id, Size: 9 + r.Intn(16)})
		if i%3000 == 2999 {
			c.Ops = append(c.Ops, Op{K: "gc", N: 1}, Op{K: "drain"})
		}
	}
	c.Ops = append(c.Ops, Op{K: "get", Key: "first"}, Op{K: "get", Key: "gone"}, Op{K: "keys"})
	for i := 0; i < 60; i++ {
		c.Ops = append(c.Ops, Op{K: "get", Key: key(r.Intn(nk))})
	}
	return c
}

// genManyEnded: thousands of transactions begin and end on one open database (most of them
// empty, some with a write; committed or rolled back), then the handles of the last ones and of a
// sample of the others are used again (reads, a write, a second Commit), with an autocommit
// read-back of every key afterwards: whatever the registry of transactions does every so many
// endings must not bring an ended transaction back.
func genManyEnded(r *simrt.Rand) SeqCase {
	c := SeqCase{Prop: "C13", ReadBack: "none"}
	c.Sched = SchedSpec{Seed: r.Uint64(), Strategy: "seqbg", MaxSteps: 400_000_000}
	c.World = genWorldSpec(r)
	c.World.GCPeriodNs = int64(time.Hour)
	c.Keys = []string{"k", "late"}
	id := uint64(1)
	c.Ops = append(c.Ops, Op{K: "set", Key: "k", ID: id, Size: 12})
	n := []int{1000, 4096, 4100, 8192, 8200}[r.Intn(5)] + r.Intn(3)
	for i := 1; i <= n; i++ {
		c.Ops = append(c.Ops, Op{K: "begin", Tx: i, Level: r.Intn(4)})
		if r.Intn(10) == 0 {
			id++
			c.Ops = append(c.Ops, Op{K: "set", Tx: i, Key: "k", ID: id, Size: 9 + r.Intn(8)})
		}
		c.Ops = append(c.Ops, Op{K: []string{"commit", "commit", "rollback"}[r.Intn(3)], Tx: i})
	}
	late := map[int]bool{}
	for i := n; i > n-12 && i > 0; i-- {
		late[i] = true
	}
	for _, m := range []int{1024, 2048, 4096, 8192, 1000, 4095, 4097} {
		if m <= n {
			late[m] = true
		}
	}
	for k := 0; k < 20; k++ {
		late[1+r.Intn(n)] = true
	}
	for i := 1; i <= n; i++ {
		if !late[i] {
			continue
		}
		c.Ops = append(c.Ops, Op{K: "get", Tx: i, Key: "k"}, Op{K: "keys", Tx: i})
		if r.Intn(2) == 0 {
			id++
			c.Ops = append(c.Ops, Op{K: "set", Tx: i, Key: "late", ID: id, Size: 10}, Op{K: "commit", Tx: i}, Op{K: "get", Key: "late"})
		} else {
			c.Ops = append(c.Ops, Op{K: "rollback", Tx: i})
		}
	}
	c.Ops = append(c.Ops, Op{K: "get", Key: "k"}, Op{K: "keys"})
	return c
}

// genBigCommit (C03): one transaction without any conflicting writer whose commit is large -
// 400-800 writes under keys of 2-4 KiB, or (many) 12 000-16 000 writes and deletes of short
// distinct keys: Commit fails exactly on a write-write conflict, so this one must succeed and
// everything it wrote be visible afterwards.
func genBigCommit(r *simrt.Rand, many bool) SeqCase {
	c := SeqCase{Prop: "C03", ReadBack: "none"}
	c.Sched = SchedSpec{Seed: r.Uint64(), Strategy: "seqbg", MaxSteps: 400_000_000}
	c.World = genWorldSpec(r)
	c.World.GCPeriodNs = int64(time.Hour)
	c.World.BadgerDefaults = true
	n, klen := 400+r.Intn(400), 2000+r.Intn(2000)
	if many {
		n, klen = 12000+r.Intn(4000), 0
	}
	key := func(i int) string {
		k := fmt.Sprintf("big-%05d", i)
		if klen > 0 {
			k += strings.Repeat(string(rune('a'+i%26)), klen)
		}
		return k
	}
	c.Keys = []string{key(0), key(n - 1)}
	id := uint64(1)
	pre := 1 + r.Intn(20)
	for i := 0; i < pre; i++ {
		id++
		c.Ops = append(c.Ops, Op{K: "set", Key: key(r.Intn(n)), ID: id, Size: 10})
	}
	c.Ops = append(c.Ops, Op{K: "begin", Tx: 1, Level: r.Intn(4)})
	for i := 0; i < n; i++ {
		if many && i%3 == 2 {
			c.Ops = append(c.Ops, Op{K: "del", Tx: 1, Key: key(i)})
			continue
		}
		id++
		c.Ops = append(c.Ops, Op{K: "set", Tx: 1, Key: key(i), ID: id, Size: 9 + r.Intn(12)})
	}
	c.Ops = append(c.Ops, Op{K: "commit", Tx: 1}, Op{K: "keys"})
	for i := 0; i < 40; i++ {
		c.Ops = append(c.Ops, Op{K: "get", Key: key(r.Intn(n))})
	}
	return c
}
