package harness

import (
	"context"
	"errors"
	"io"

	adaptererrors "github.com/glebziz/fs_db/internal/adapter/errors"
	store "github.com/glebziz/fs_db/internal/proto"
)

// C10, uploads in legal shapes the project's own client never produces: the gRPC protocol is a
// public interface, and a SetFile stream may carry chunks of any size, chunks without bytes,
// messages with nothing set and a repeated header (another language binding, a re-chunking
// proxy). Whatever the server makes of them, an upload it reports as successful is complete.
func init() {
	c10RawUpload = func(w *World, ctx context.Context, key string, content []byte, sizes []int, odd string, at int) error {
		l := newGrpcLink()
		store.RegisterStoreV1Server(l, w.C.StoreService())
		raw := store.NewStoreV1Client(l)
		st, err := raw.SetFile(ctx)
		if err != nil {
			return adaptererrors.ClientError(err)
		}
		ended := false
		send := func(m *store.SetFileRequest) {
			if ended {
				return
			}
			if e := st.Send(m); e != nil {
				// io.EOF: the server has ended the call; the verdict is what CloseAndRecv returns
				ended = true
				if !errors.Is(e, io.EOF) {
					err = e
				}
			}
		}
		header := &store.SetFileRequest{Data: &store.SetFileRequest_Header{Header: &store.FileHeader{Key: key}}}
		oddMsg := func() {
			switch odd {
			case "emptychunk":
				send(&store.SetFileRequest{Data: &store.SetFileRequest_Chunk{Chunk: []byte{}}})
			case "nilchunk":
				send(&store.SetFileRequest{Data: &store.SetFileRequest_Chunk{}})
			case "nodata":
				send(&store.SetFileRequest{})
			case "header2":
				send(header)
			}
		}
		send(header)
		rest := content
		for i, n := range sizes {
			if i == at {
				oddMsg()
			}
			if n > len(rest) {
				n = len(rest)
			}
			send(&store.SetFileRequest{Data: &store.SetFileRequest_Chunk{Chunk: rest[:n]}})
			rest = rest[n:]
		}
		if len(rest) > 0 {
			send(&store.SetFileRequest{Data: &store.SetFileRequest_Chunk{Chunk: rest}})
		}
		if at >= len(sizes) {
			oddMsg()
		}
		if err != nil {
			return adaptererrors.ClientError(err)
		}
		if _, e := st.CloseAndRecv(); e != nil {
			return adaptererrors.ClientError(e)
		}
		return nil
	}
}
