package harness

import (
	"bytes"
	"encoding/json"
	"fmt"
	"github.com/glebziz/fs_db/internal/model/sequence"
	"hash/fnv"
	"sort"
	"time"

	"github.com/glebziz/fs_db"
	"github.com/glebziz/fs_db/internal/verif/refmodel"
	"github.com/glebziz/fs_db/internal/verif/simrt"
)

// ConcCase is a small concurrent client program on a whole inline database: an initial
// sequential phase, then the clients run concurrently under the seeded scheduler together with
// the database's own goroutines; the recorded call/return history is judged afterwards.
type ConcCase struct {
	Prop    string    `json:"prop"`
	Sched   SchedSpec `json:"sched"`
	World   WorldSpec `json:"world"`
	Keys    []string  `json:"keys"`
	Init    []Op      `json:"init"`
	Clients [][]Op    `json:"clients"`
	Final   bool      `json:"final"`            // read every key back after the concurrent phase
	Tail    []Op      `json:"tail,omitempty"`   // executed by client 0 after the final read-back (gives the crash simulation crash points after it)
	Reopen  bool      `json:"reopen,omitempty"` // then Close, Open and read everything again: it must equal what was read before Close
	Dir     string    `json:"dir,omitempty"`    // crashsim: run in this directory (kept), log every invoke/ack
	Client  string    `json:"client,omitempty"` // "" = inline; simgrpc = all clients share one external client over the simulated transport (handlers run on the server side, concurrently)
	Walk    bool      `json:"walk,omitempty"`   // C14: after the final read-back run a collection pass to quiescence and compare the roots with the readable keys
}

// HEvent is one completed operation of the history. Call and Ret are global scheduler event
// numbers (never simulated time), so no two operations tie.
type HEvent struct {
	Client  int
	Op      Op
	Call    uint64
	Ret     uint64
	Class   string // error class ("" = nil)
	ValID   uint64 // for reads: id of the write whose complete content was returned (0: none)
	Foreign string // for reads: description of a content that is no complete written value
	Keys    []string
	Err     string
}

type concRun struct {
	c          ConcCase
	w          *World
	a          *actors
	hist       []HEvent
	written    map[uint64]Op // write id -> op
	infra      string
	reopenViol *Violation
	opLog      func(kind string, client, n int, ev *HEvent) // crashsim: unbuffered invoke/ack log
}

func (cr *concRun) identify(key string, b []byte) (uint64, string) {
	var cands []Op
	for _, o := range cr.written {
		if o.Key == key && len(b) == o.Size {
			cands = append(cands, o)
		}
	}
	sort.Slice(cands, func(i, j int) bool { return cands[i].ID < cands[j].ID })
	for _, o := range cands {
		if bytes.Equal(b, payload(o.ID, o.Size)) {
			return o.ID, ""
		}
	}
	idx := &valueIndex{}
	ids := make([]uint64, 0, len(cr.written))
	for id := range cr.written {
		ids = append(ids, id)
	}
	sort.Slice(ids, func(i, j int) bool { return ids[i] < ids[j] })
	for _, id := range ids {
		o := cr.written[id]
		idx.add(refmodel.Val{ID: o.ID, Size: o.Size})
	}
	d := idx.describe(b)
	for _, id := range ids {
		o := cr.written[id]
		if len(b) == o.Size && bytes.Equal(b, payload(o.ID, o.Size)) {
			return 0, fmt.Sprintf("%s, which was written to key %q, not %q", d, o.Key, key)
		}
	}
	return 0, d
}

func (cr *concRun) do(client int, o Op) {
	switch o.K {
	case "gc":
		cr.w.GCDirect()
		return
	case "gctimer":
		cr.w.GCTimer()
		return
	case "bg":
		simrt.Background(o.N)
		return
	case "drain":
		cr.w.Drain()
		return
	case "yield":
		for i := 0; i < o.N; i++ {
			simrt.Yield("client.pause")
		}
		return
	case "seqjump":
		sequence.VerifAdvance(uint64(o.Size))
		return
	case "advance":
		// simulated time passes (N milliseconds) while the other clients are wherever they are:
		// a client may be held anywhere for seconds (a descheduled goroutine, a paused VM)
		simrt.AdvanceTime(int64(o.N) * int64(time.Millisecond))
		return
	}
	simrt.Yield("op.call")
	ev := HEvent{Client: client, Op: o, Call: simrt.Step()}
	if cr.opLog != nil {
		cr.opLog("inv", client, len(cr.hist), &ev)
	}
	if cr.c.Sched.PerCallCtx && o.Ctx == "" {
		o.Ctx = "percall"
	}
	r := cr.a.apply(cr.w.Ctx, o)
	simrt.Yield("op.return")
	ev.Ret = simrt.Step()
	ev.Class = r.Class
	if r.Err != nil {
		ev.Err = r.Err.Error()
	}
	if (o.K == "get" || o.K == "getr") && r.Err == nil {
		ev.ValID, ev.Foreign = cr.identify(o.Key, r.Data)
	}
	ev.Keys = r.Keys
	if cr.opLog != nil {
		cr.opLog("ack", client, len(cr.hist), &ev)
	}
	cr.hist = append(cr.hist, ev)
}

var (
	concKillAt   uint64
	concKillTorn bool
)

// concOpLog is set by the crashsim child before it runs a concurrent workload.
var concOpLog func(kind string, client, n int, ev *HEvent)

func concExec(c ConcCase, choices []int32) (RunOut, *concRun) {
	cr := &concRun{c: c, written: map[uint64]Op{}, opLog: concOpLog}
	for _, o := range c.Init {
		if o.ID != 0 {
			cr.written[o.ID] = o
		}
	}
	for _, cl := range append([][]Op{c.Tail}, c.Clients...) {
		for _, o := range cl {
			if o.ID != 0 {
				cr.written[o.ID] = o
			}
		}
	}
	res := simrt.Run(c.Sched.config(choices), func() {
		var w *World
		var err error
		if c.Dir != "" {
			w = worldAt(c.Dir, c.World, c.Sched.Seed, true)
			if concKillAt != 0 {
				simrt.SetKill(concKillAt, concKillTorn)
			}
		} else if w, err = NewWorld(c.World, c.Sched.Seed); err != nil {
			cr.infra = err.Error()
			return
		}
		cr.w = w
		if err := w.Open(); err != nil {
			cr.infra = "open: " + err.Error()
			return
		}
		cr.a = &actors{db: w.DB, txs: map[int]fs_db.Tx{}}
		if c.Client == "simgrpc" && c.Dir == "" && newSimGrpcClient != nil {
			cr.a.db = newSimGrpcClient(w)
		}
		for _, o := range c.Init {
			cr.do(0, o)
		}
		var wg simrt.WaitGroup
		for i, ops := range c.Clients {
			wg.Add(1)
			i, ops := i, ops
			simrt.GoNamed(fmt.Sprintf("client%d", i+1), 0, func() {
				defer wg.Done()
				for _, o := range ops {
					cr.do(i+1, o)
				}
			})
		}
		wg.Wait()
		if c.Final {
			w.Drain()
			for _, k := range c.Keys {
				cr.do(0, Op{K: "get", Key: k})
			}
			cr.do(0, Op{K: "keys"})
		}
		for _, o := range c.Tail {
			cr.do(0, o)
		}
		if c.Walk {
			sr := &seqRun{c: SeqCase{Prop: c.Prop}, w: w, m: refmodel.New(), a: cr.a, idx: &valueIndex{}, probes: map[string]uint64{}, faults: map[string]uint64{}}
			for _, o := range cr.written {
				sr.idx.add(refmodel.Val{ID: o.ID, Size: o.Size})
			}
			sr.finalWalk()
			if sr.viol != nil {
				cr.reopenViol = sr.viol
				cr.reopenViol.Signature += ",after-concurrent-history"
			}
		}
		if c.Reopen && c.Final {
			before := cr.finalState()
			if err := w.Close(); err != nil {
				cr.infra = "close: " + err.Error()
				return
			}
			if err := w.Open(); err != nil {
				cr.reopenViol = &Violation{Class: "reopen-differs", Signature: c.Prop + "|reopen-differs|open-failed", Detail: "Open after Close failed: " + err.Error()}
				return
			}
			cr.a.db = w.DB
			if c.Client == "simgrpc" && newSimGrpcClient != nil {
				cr.a.db = newSimGrpcClient(w)
			}
			n := len(cr.hist)
			for _, k := range c.Keys {
				cr.do(0, Op{K: "get", Key: k})
			}
			cr.do(0, Op{K: "keys"})
			after := cr.stateOf(cr.hist[n:])
			cr.hist = cr.hist[:n] // the post-restart reads are not part of the concurrent history
			if before != after {
				cr.reopenViol = &Violation{Class: "reopen-differs", Signature: c.Prop + "|reopen-differs|after-concurrent-history",
					Detail: "after the concurrent phase the quiescent database read\n  " + before + "\nafter Close and Open it reads\n  " + after}
			}
		}
		if err := w.Close(); err != nil {
			cr.infra = "close: " + err.Error()
		}
	})
	if cr.w != nil && c.Dir == "" {
		cr.w.Destroy()
	}
	out := RunOut{Steps: res.Steps, Switches: res.Switches, TimerFires: res.TimerFires, SimNs: res.SimTimeNs,
		TraceHash: res.TraceHash, SwitchHash: res.SwitchHash, Choices: res.Choices, Log: res.Log,
		Probes: map[string]uint64{}, Faults: map[string]uint64{}}
	b, _ := json.Marshal(c.Clients)
	h := fnv.New64a()
	h.Write(b)
	out.CaseHash = h.Sum64() ^ res.SwitchHash
	var cl [][]string
	for _, ops := range c.Clients {
		cl = append(cl, opsSummary(ops))
	}
	out.Sample, _ = json.Marshal(map[string]any{"keys": c.Keys, "init": opsSummary(c.Init), "clients": cl, "strategy": c.Sched.Strategy, "steps": res.Steps, "switches": res.Switches})
	if cr.infra != "" && res.Status == simrt.StatusOK {
		out.Infra = cr.infra
		out.MustExit = true
	}
	if res.TimerFires > 0 {
		out.Probes["timer-fired-during-run"] = res.TimerFires
	}
	finishStatus(&out, res, c.Prop, cr.reopenViol, "conc")
	return out, cr
}

// finalState renders the final read-back (the last len(Keys)+1 history entries of client 0).
func (cr *concRun) finalState() string {
	n := len(cr.c.Keys) + 1
	if len(cr.hist) < n {
		return ""
	}
	return cr.stateOf(cr.hist[len(cr.hist)-n:])
}

func (cr *concRun) stateOf(evs []HEvent) string {
	s := ""
	for _, e := range evs {
		switch e.Op.K {
		case "get":
			if e.Class != "" {
				s += fmt.Sprintf("%q=%s ", e.Op.Key, e.Class)
			} else if e.Foreign != "" {
				s += fmt.Sprintf("%q=<%s> ", e.Op.Key, e.Foreign)
			} else {
				s += fmt.Sprintf("%q=#%d ", e.Op.Key, e.ValID)
			}
		case "keys":
			s += fmt.Sprintf("keys=%q", e.Keys)
		}
	}
	return s
}

// overlaps counts pairs of operations of different clients on one key that overlap in
// call/return time (non-triviality measure for concurrent histories).
func (cr *concRun) overlaps() int {
	n := 0
	for i := range cr.hist {
		for j := i + 1; j < len(cr.hist); j++ {
			a, b := cr.hist[i], cr.hist[j]
			if a.Client == b.Client {
				continue
			}
			if a.Call < b.Ret && b.Call < a.Ret {
				if a.Op.Key == b.Op.Key || a.Op.K == "commit" || b.Op.K == "commit" || a.Op.K == "keys" || b.Op.K == "keys" {
					n++
				}
			}
		}
	}
	return n
}

func (cr *concRun) histText(max int) string {
	h := append([]HEvent(nil), cr.hist...)
	sort.Slice(h, func(i, j int) bool { return h[i].Call < h[j].Call })
	s := ""
	for i, e := range h {
		if i >= max {
			s += fmt.Sprintf("  ... %d more\n", len(h)-max)
			break
		}
		res := "ok"
		if e.Class != "" {
			res = e.Class
		}
		if e.ValID != 0 {
			res = fmt.Sprintf("value #%d", e.ValID)
		} else if e.Foreign != "" {
			res = e.Foreign
		}
		if e.Op.K == "keys" && e.Class == "" {
			res = fmt.Sprintf("%q", e.Keys)
		}
		s += fmt.Sprintf("  [%d..%d] client%d %s -> %s\n", e.Call, e.Ret, e.Client, e.Op, res)
	}
	return s
}

// concShrink drops clients and operations (a dropped begin takes its transaction along) and
// re-seeds the schedule.
func concShrink(c ConcCase) []ConcCase {
	var out []ConcCase
	clone := func() ConcCase {
		var d ConcCase
		b, _ := json.Marshal(c)
		json.Unmarshal(b, &d)
		return d
	}
	add := func(d ConcCase) {
		for k := 0; k < 5; k++ {
			e := d
			e.Sched.Seed = simrt.Mix(d.Sched.Seed + uint64(k)*977)
			out = append(out, e)
		}
	}
	dropTx := func(d *ConcCase, tx int) {
		for ci := range d.Clients {
			var n []Op
			for _, o := range d.Clients[ci] {
				if o.Tx != tx {
					n = append(n, o)
				}
			}
			d.Clients[ci] = n
		}
		var n []Op
		for _, o := range d.Init {
			if o.Tx != tx {
				n = append(n, o)
			}
		}
		d.Init = n
	}
	if len(c.Clients) > 1 {
		for ci := range c.Clients {
			d := clone()
			// transactions begun in Init but used by this client go away with it
			for _, o := range c.Clients[ci] {
				if o.Tx > 0 {
					dropTx(&d, o.Tx)
				}
			}
			d.Clients = append(d.Clients[:ci], d.Clients[ci+1:]...)
			add(d)
		}
	}
	for ci := range c.Clients {
		for k := len(c.Clients[ci]) - 1; k >= 0; k-- {
			o := c.Clients[ci][k]
			d := clone()
			if o.K == "begin" {
				dropTx(&d, o.Tx)
			} else if o.K == "commit" || o.K == "rollback" {
				continue
			} else {
				d.Clients[ci] = append(d.Clients[ci][:k], d.Clients[ci][k+1:]...)
			}
			add(d)
			if len(out) > 200 {
				return out
			}
		}
	}
	return out
}
