package harness

import (
	"encoding/json"
	"fmt"
	"os"
	"os/exec"
	"strconv"
	"strings"
)

// SelfTest is the determinism self-test: n runs of a property are executed in three fresh
// processes at GOMAXPROCS 1, 4 and 16; the per-run trace hashes (every scheduling step with its
// site), outcome and step counts must be identical.
func SelfTest(prop string, seed uint64, n int, self string) int {
	if n <= 0 {
		n = 32
	}
	var ref []string
	for _, procs := range []string{"1", "4", "16"} {
		out, err := os.CreateTemp("/dev/shm", "selftest-*.jsonl")
		if err != nil {
			return 2
		}
		out.Close()
		defer os.Remove(out.Name())
		cmd := exec.Command(self, "worker", "-prop", prop, "-tier", "quick", "-seed", strconv.FormatUint(seed, 10),
			"-from", "0", "-stride", "1", "-n", strconv.Itoa(n), "-out", out.Name())
		cmd.Env = append(os.Environ(), "GOMAXPROCS="+procs, "VERIF_WORLD_DIR=/dev/shm/selftest-world-"+strconv.Itoa(os.Getpid()))
		cmd.Stderr = os.Stderr
		from := 0
		var lines []string
		for {
			cmd.Run()
			b, _ := os.ReadFile(out.Name())
			lines = nil
			last := -1
			for _, l := range strings.Split(strings.TrimSpace(string(b)), "\n") {
				var o RunOut
				if json.Unmarshal([]byte(l), &o) != nil {
					continue
				}
				v := ""
				if o.Violation != nil {
					v = o.Violation.Signature
				}
				lines = append(lines, fmt.Sprintf("%d %x %d %d %s %s", o.Index, o.TraceHash, o.Steps, o.Switches, v, o.Inconclusive))
				last = o.Index
			}
			if last >= n-1 {
				break
			}
			from = last + 1
			cmd = exec.Command(self, "worker", "-prop", prop, "-tier", "quick", "-seed", strconv.FormatUint(seed, 10),
				"-from", strconv.Itoa(from), "-stride", "1", "-n", strconv.Itoa(n), "-out", out.Name())
			cmd.Env = append(os.Environ(), "GOMAXPROCS="+procs, "VERIF_WORLD_DIR=/dev/shm/selftest-world-"+strconv.Itoa(os.Getpid()))
			cmd.Stderr = os.Stderr
		}
		if ref == nil {
			ref = lines
			continue
		}
		if len(ref) != len(lines) {
			fmt.Printf("NONDETERMINISM: %d vs %d runs\n", len(ref), len(lines))
			return 2
		}
		for i := range ref {
			if ref[i] != lines[i] {
				fmt.Printf("NONDETERMINISM at run %d:\n  %s\n  %s\n", i, ref[i], lines[i])
				return 2
			}
		}
	}
	os.RemoveAll("/dev/shm/selftest-world-" + strconv.Itoa(os.Getpid()))
	fmt.Printf("determinism self-test: %s, %d runs x 3 processes (GOMAXPROCS 1/4/16): identical traces\n", prop, len(ref))
	return 0
}
