package harness

import (
	"bufio"
	"bytes"
	"context"
	"errors"
	"fmt"
	"io"
	"io/fs"
	"os"
	"path/filepath"
	"sort"
	"strings"
	"time"

	"github.com/google/uuid"

	"github.com/glebziz/fs_db"
	"github.com/glebziz/fs_db/config"
	"github.com/glebziz/fs_db/internal/di"
	"github.com/glebziz/fs_db/internal/model/sequence"
	"github.com/glebziz/fs_db/internal/verif/refmodel"
	"github.com/glebziz/fs_db/internal/verif/simbadger"
	"github.com/glebziz/fs_db/internal/verif/simos"
	"github.com/glebziz/fs_db/internal/verif/simrt"
	"github.com/glebziz/fs_db/pkg/inline"
	inlinedb "github.com/glebziz/fs_db/pkg/inline/db"
)

// World is one simulated environment: a scratch directory with a Badger directory and the
// storage roots, the simulated disk, and the open database(s).
type World struct {
	Spec   WorldSpec
	Dir    string
	DBDir  string
	Roots  []string
	Disk   *simos.Disk
	Badger *simbadger.Faults
	// Reversed: the configuration lists the roots in reverse order (toggled at a reopen)
	Reversed bool
	DB       fs_db.DB
	C        *di.Container
	Ctx      context.Context
	Link     any // the simulated gRPC link, if one was created
	// Dropped[i]: root i has been taken out of the configuration (an operator removed it before a
	// restart); what it holds stays readable, nothing new may be put there
	Dropped map[int]bool
}

var worldCounter int

func worldBase() string {
	d := os.Getenv("VERIF_WORLD_DIR")
	if d == "" {
		d = fmt.Sprintf("/dev/shm/verif-world-%d", os.Getpid())
	}
	return d
}

func defaultWorldSpec() WorldSpec {
	return WorldSpec{Roots: []RootSpec{{}}, NumWorkers: 2, SendDurNs: int64(time.Millisecond), GCPeriodNs: int64(time.Minute), MaxDirCount: 100}
}

func genWorldSpec(r *simrt.Rand) WorldSpec {
	w := WorldSpec{NumWorkers: 1 + r.Intn(3), MaxDirCount: 100}
	w.SendDurNs = []int64{1000, 1_000_000, 10_000_000}[r.Intn(3)]
	w.GCPeriodNs = w.SendDurNs * []int64{1, 3, 50, 60000}[r.Intn(4)]
	for i := 0; i < 1+r.Intn(3); i++ {
		w.Roots = append(w.Roots, RootSpec{})
	}
	return w
}

// NewWorld creates the directories and installs the simulated disk. Must be called from inside
// simrt.Run (it resets the process-global sequence counter and re-seeds the id streams).
func NewWorld(spec WorldSpec, seed uint64) (*World, error) {
	worldCounter++
	w := &World{Spec: spec, Ctx: context.Background()}
	w.Dir = filepath.Join(worldBase(), fmt.Sprintf("run-%d", worldCounter))
	os.RemoveAll(w.Dir)
	w.DBDir = filepath.Join(w.Dir, "db")
	if err := os.MkdirAll(w.DBDir, 0o755); err != nil {
		return nil, err
	}
	w.Disk = &simos.Disk{}
	for i, rs := range spec.Roots {
		p := filepath.Join(w.Dir, fmt.Sprintf("root%d", i))
		w.Roots = append(w.Roots, p)
		if rs.Reported > 0 {
			real := rs.Real
			if real <= 0 {
				real = rs.Reported
			}
			w.Disk.Roots = append(w.Disk.Roots, &simos.Root{Path: p, Reported: rs.Reported, Real: real, Partial: rs.Partial})
		}
	}
	simos.Install(w.Disk)
	w.Badger = &simbadger.Faults{FailUpdateAt: map[uint64]bool{}, FailCommitAt: map[uint64]bool{}}
	simbadger.Install(w.Badger)
	simrt.SeedIDs(seed)
	uuid.SetRand(simrt.IDRand())
	sequence.VerifReset(spec.SeqBase)
	simbadger.UseDefaults = spec.BadgerDefaults
	simrt.ResetMutations()
	return w, nil
}

// SetCapacities (re)installs the simulated disk with the given per-root capacities; bytes
// already stored count as used.
func (w *World) SetCapacities(caps []RootSpec) {
	w.Disk = &simos.Disk{}
	for i, rs := range caps {
		if i >= len(w.Roots) || rs.Reported <= 0 {
			continue
		}
		real := rs.Real
		if real <= 0 {
			real = rs.Reported
		}
		w.Disk.Roots = append(w.Disk.Roots, &simos.Root{Path: w.Roots[i], Reported: rs.Reported, Real: real, Partial: rs.Partial})
	}
	simos.Install(w.Disk)
}

// SetCapacitiesExact installs capacities as given (Reported/Real are absolute capacities).
func (w *World) SetCapacitiesExact(caps []RootSpec) {
	w.Disk = &simos.Disk{}
	for i, rs := range caps {
		if i >= len(w.Roots) {
			continue
		}
		w.Disk.Roots = append(w.Disk.Roots, &simos.Root{Path: w.Roots[i], Reported: rs.Reported, Real: rs.Real, Partial: rs.Partial})
	}
	simos.Install(w.Disk)
}

// usedBytes is the number of content bytes currently stored under root i.
func (w *World) usedBytes(i int) int64 {
	var n int64
	filepath.WalkDir(w.Roots[i], func(_ string, e fs.DirEntry, err error) error {
		if err == nil && e.Type().IsRegular() {
			if fi, err := e.Info(); err == nil {
				n += fi.Size()
			}
		}
		return nil
	})
	return n
}

func (w *World) Config() config.Config {
	var roots []string
	for i, r := range w.Roots {
		if !w.Dropped[i] {
			roots = append(roots, r)
		}
	}
	if w.Reversed {
		// the operator lists the same roots in another order
		for i, j := 0, len(roots)-1; i < j; i, j = i+1, j-1 {
			roots[i], roots[j] = roots[j], roots[i]
		}
	}
	return w.ConfigFor(w.DBDir, roots)
}

func (w *World) ConfigFor(dbDir string, roots []string) config.Config {
	spelled := make([]string, len(roots))
	for i, r := range roots {
		switch w.Spec.RootStyle {
		case 1:
			spelled[i] = r + "/"
		case 2:
			spelled[i] = filepath.Dir(r) + "/./" + filepath.Base(r)
		case 3:
			spelled[i] = filepath.Dir(r) + "//" + filepath.Base(r)
		default:
			spelled[i] = r
		}
	}
	return config.Config{
		Storage: config.Storage{DbPath: dbDir, MaxDirCount: w.Spec.MaxDirCount, RootDirs: spelled, GCPeriod: time.Duration(w.Spec.GCPeriodNs)},
		WPool:   config.WPool{NumWorkers: w.Spec.NumWorkers, SendDuration: time.Duration(w.Spec.SendDurNs)},
	}
}

// Open opens the inline database; its own goroutines (pool workers, GC timer loop) belong to
// the background group.
func (w *World) Open() error {
	db, c, err := openInline(w.Ctx, w.Config())
	if err != nil {
		return err
	}
	w.DB, w.C = db, c
	return nil
}

func openInline(ctx context.Context, cfg config.Config) (fs_db.DB, *di.Container, error) {
	old := simrt.SetGroup(1)
	db, err := inline.Open(ctx, cfg)
	simrt.SetGroup(old)
	if err != nil {
		return nil, nil, err
	}
	return db, inlinedb.VerifContainer(db), nil
}

func (w *World) Close() error {
	if w.DB == nil {
		return nil
	}
	err := w.DB.Close()
	w.DB, w.C = nil, nil
	return err
}

// Destroy removes the world directory.
func (w *World) Destroy() {
	simos.Install(nil)
	simbadger.Install(nil)
	os.RemoveAll(w.Dir)
}

// GCDirect runs the collector synchronously on the calling goroutine.
func (w *World) GCDirect() error { return w.C.Cleaner().DeleteOld(w.Ctx) }

// GCTimer lets one GC period of simulated time pass: the pool's scheduling goroutine wakes up
// and submits the collection job.
func (w *World) GCTimer() { simrt.AdvanceTime(w.Spec.GCPeriodNs) }

// Drain runs the world to exact quiescence, firing Send time-outs (but not the periodic GC
// timer) as needed.
func (w *World) Drain() {
	for k := 0; k < 100; k++ {
		simrt.Quiesce()
		// a sender (or the flusher) may be waiting for its Send time-out only
		if simrt.AdvanceTime(w.Spec.SendDurNs) == 0 {
			break
		}
		if w.Spec.SendDurNs >= w.Spec.GCPeriodNs {
			simrt.Quiesce()
			break
		}
	}
	simrt.Quiesce()
}

// ---- values and error classes ---------------------------------------------------------------

// contentOf regenerates the bytes of a write.
func contentOf(v refmodel.Val) []byte { return payload(v.ID, v.Size) }

var sentinels = []struct {
	name string
	err  error
}{
	{"ErrNotFound", fs_db.ErrNotFound},
	{"ErrEmptyKey", fs_db.ErrEmptyKey},
	{"ErrTxNotFound", fs_db.ErrTxNotFound},
	{"ErrTxSerialization", fs_db.ErrTxSerialization},
	{"ErrNoFreeSpace", fs_db.ErrNoFreeSpace},
	{"ErrTxAlreadyExists", fs_db.ErrTxAlreadyExists},
	{"ErrHeaderNotFound", fs_db.ErrHeaderNotFound},
	{"ErrUnknown", fs_db.ErrUnknown},
}

// classOf maps an error to the exported sentinels it matches ("" for nil, "other" if none).
func classOf(err error) string {
	if err == nil {
		return ""
	}
	var cs []string
	for _, s := range sentinels {
		if errors.Is(err, s.err) {
			cs = append(cs, s.name)
		}
	}
	if len(cs) == 0 {
		return "other"
	}
	return strings.Join(cs, "+")
}

// valueIndex lets a checker say what an unexpected content actually is.
type valueIndex struct {
	vals []refmodel.Val
}

func (x *valueIndex) add(v refmodel.Val) { x.vals = append(x.vals, v) }

func (x *valueIndex) describe(b []byte) string {
	for _, v := range x.vals {
		c := contentOf(v)
		if bytes.Equal(c, b) {
			return fmt.Sprintf("the complete value of write #%d (%d bytes)", v.ID, v.Size)
		}
	}
	for _, v := range x.vals {
		c := contentOf(v)
		if len(b) > 0 && len(b) < len(c) && bytes.Equal(c[:len(b)], b) {
			return fmt.Sprintf("a %d-byte prefix of write #%d (%d bytes)", len(b), v.ID, v.Size)
		}
	}
	for _, v := range x.vals {
		c := contentOf(v)
		n := 16
		if len(c) >= n && len(b) >= n && bytes.Equal(c[:n], b[:n]) {
			return fmt.Sprintf("%d bytes starting like write #%d (%d bytes) but different", len(b), v.ID, v.Size)
		}
	}
	return fmt.Sprintf("%d bytes belonging to no write", len(b))
}

// ---- directory walk -----------------------------------------------------------------------------

type diskFile struct {
	Root, Dir, Name string
	Size            int64
	Path            string
}

// walkRoots lists everything under the storage roots.
func (w *World) walkRoots() (files []diskFile, dirs map[string]int, odd []string) {
	dirs = map[string]int{}
	for _, root := range w.Roots {
		filepath.WalkDir(root, func(p string, e fs.DirEntry, err error) error {
			if err != nil || p == root {
				return nil
			}
			rel, _ := filepath.Rel(root, p)
			parts := strings.Split(rel, string(filepath.Separator))
			if e.IsDir() {
				if len(parts) == 1 && uuid.Validate(parts[0]) == nil {
					if _, ok := dirs[p]; !ok {
						dirs[p] = 0
					}
				} else {
					odd = append(odd, "unexpected directory "+rel)
				}
				return nil
			}
			if len(parts) != 2 || uuid.Validate(parts[0]) != nil || uuid.Validate(parts[1]) != nil {
				odd = append(odd, "file outside root/<uuid>/<uuid>: "+rel)
			}
			var size int64
			if fi, err := e.Info(); err == nil {
				size = fi.Size()
			}
			files = append(files, diskFile{Root: root, Dir: filepath.Dir(p), Name: e.Name(), Size: size, Path: p})
			dirs[filepath.Dir(p)]++
			return nil
		})
	}
	sort.Slice(files, func(i, j int) bool { return files[i].Path < files[j].Path })
	return
}

func readAllClose(rc io.ReadCloser) ([]byte, error) {
	b, err := io.ReadAll(rc)
	cerr := rc.Close()
	if err == nil {
		err = cerr
	}
	return b, err
}

// consumeClose reads a content reader to its end the way callers do: "" io.ReadAll; "copy"
// io.Copy from the start (uses the reader's WriteTo if it has one); "prefix" the first n bytes
// with io.ReadFull (a header), the rest with io.Copy; "bufio" a line-sized bufio.Reader whose
// first n bytes are peeked and read, the rest through its WriteTo; "small" reads of 1-700 bytes.
func consumeClose(rc io.ReadCloser, how string, n int) ([]byte, error) {
	var (
		out bytes.Buffer
		err error
	)
	switch how {
	case "copy":
		_, err = io.Copy(&out, rc)
	case "prefix":
		head := make([]byte, n)
		var m int
		m, err = io.ReadFull(rc, head)
		out.Write(head[:m])
		if err == io.EOF || err == io.ErrUnexpectedEOF {
			err = nil // shorter than the header
		} else if err == nil {
			_, err = io.Copy(&out, rc)
		}
	case "bufio":
		br := bufio.NewReaderSize(rc, 64)
		head := make([]byte, n)
		var m int
		m, err = io.ReadFull(br, head)
		out.Write(head[:m])
		if err == io.EOF || err == io.ErrUnexpectedEOF {
			err = nil
		} else if err == nil {
			_, err = br.WriteTo(&out)
		}
	case "small":
		buf := make([]byte, 700)
		for k := 0; err == nil; k++ {
			var m int
			m, err = rc.Read(buf[:1+(k*7919+n)%700])
			out.Write(buf[:m])
		}
		if err == io.EOF {
			err = nil
		}
	default:
		return readAllClose(rc)
	}
	cerr := rc.Close()
	if err == nil {
		err = cerr
	}
	return out.Bytes(), err
}

func backgroundCtx() context.Context { return context.Background() }
