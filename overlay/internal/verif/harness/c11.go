package harness

import (
	"bytes"
	"context"
	"encoding/json"
	"errors"
	"fmt"
	"hash/fnv"
	"io"
	"net"
	"os"
	"os/exec"
	"strings"
	"time"

	"github.com/google/uuid"

	"github.com/glebziz/fs_db"
	"github.com/glebziz/fs_db/internal/app"
	grpcstore "github.com/glebziz/fs_db/internal/delivery/grpc/store"
	"github.com/glebziz/fs_db/internal/model"
	store "github.com/glebziz/fs_db/internal/proto"
	"github.com/glebziz/fs_db/internal/verif/refmodel"
	"github.com/glebziz/fs_db/internal/verif/simrt"
	"github.com/glebziz/fs_db/pkg/external"
	externaldb "github.com/glebziz/fs_db/pkg/external/db"
)

// C11 — the gRPC client is indistinguishable from the inline client.
//
// One generated sequential history (profiles of C01-C03 and C13, contents across the 2048-byte
// chunk boundary, all four levels, late calls through ended handles) is executed through one of
// three client stacks chosen by the run index and compared, operation by operation and by a full
// read-back, with the same reference model: the inline client, the external client over the
// simulated in-process transport (simgrpc), and the external client over real loopback gRPC
// against the production app.New/Run (grpcreal, executed by the plain-flavour binary: shipped
// synchronisation and grpc-go, sequential fault-free histories). A second generator pushes every
// exported sentinel under seeded wrapping through the real delivery service, adapters and
// transport.

type C11Case struct {
	Seq *SeqCase `json:"seq,omitempty"`
	Err *ErrCase `json:"err,omitempty"`
}

type ErrCase struct {
	Transport string   `json:"transport"` // simgrpc | grpcreal
	Sentinel  string   `json:"sentinel"`
	Depth     int      `json:"depth"`
	Joined    bool     `json:"joined"`
	RPCs      []string `json:"rpcs"`
}

type propC11 struct{ seqProp }

func init() {
	Register(propC11{seqProp{id: "C11",
		rule: "cases: (a) sequential histories (profiles of C01, C02, C03 and C13: contents 0..70 KiB incl. 2047..2049 and 4096/4097, all four isolation levels, transactions, late calls through ended handles) executed through one client stack per run - inline, external over the simulated transport, external over real loopback gRPC against app.New/Run - and compared with the one reference model after every operation and by a full read-back of all actors through that client; (b) every exported server-side sentinel (and a non-sentinel error) under wrapping depth 0-3, optionally joined with foreign errors, returned by a stand-in use case behind the real delivery service for every RPC, through the real adapters and both transports: the client-side class (errors.Is against the exported sentinels) must equal the server-side class; distinct = hash(case); non-trivial = the history went through a gRPC stack and contains a streamed content larger than one 2048-byte chunk or a transaction, or (b) a sentinel case",
		runs: [2]int{3000, 90000}}})
}

var c11Sentinels = []string{"ErrNoFreeSpace", "ErrNotFound", "ErrEmptyKey", "ErrHeaderNotFound", "ErrTxNotFound", "ErrTxAlreadyExists", "ErrTxSerialization", "none"}

func (p propC11) Gen(r *simrt.Rand, idx int, tier string) any {
	if idx%10 == 9 {
		e := ErrCase{Transport: []string{"simgrpc", "grpcreal"}[(idx/10)%2], Sentinel: c11Sentinels[(idx/20)%len(c11Sentinels)], Depth: r.Intn(4), Joined: r.Intn(2) == 0,
			RPCs: []string{"set", "setr", "create", "get", "getr", "keys", "del", "begin", "commit", "rollback"}}
		return C11Case{Err: &e}
	}
	var c SeqCase
	switch r.Intn(4) {
	case 0:
		c = genSeqCase(r, seqProfile{prop: "C11", steps: [2]int{10, 35}, keys: [2]int{2, 4}, emptyKey: true, big: true, readback: "auto"})
	case 1:
		c = genSeqCase(r, seqProfile{prop: "C11", steps: [2]int{15, 45}, keys: [2]int{2, 3}, maxTx: 5, txWeight: 70, readback: "all"})
	case 2:
		c = genSeqCase(r, seqProfile{prop: "C11", steps: [2]int{15, 45}, keys: [2]int{2, 3}, maxTx: 4, txWeight: 75, readback: "all", overlap: true})
	default:
		c = genSeqCase(r, seqProfile{prop: "C11", steps: [2]int{15, 45}, keys: [2]int{2, 3}, maxTx: 4, txWeight: 65, late: true, readback: "all"})
	}
	for i := range c.Ops {
		if c.Ops[i].Key == "" && (c.Ops[i].K == "set" || c.Ops[i].K == "setr" || c.Ops[i].K == "create") {
			// a write the server rejects while the client may still be uploading (more than the
			// flow-control window for the larger sizes)
			c.Ops[i].Size = []int{5, 3000, 70000, 300000, 2 << 20}[r.Intn(5)]
			if c.Ops[i].K == "create" {
				c.Ops[i].Writes = nil
				for rest := c.Ops[i].Size; rest > 0; {
					n := min(rest, 1+r.Intn(65536))
					c.Ops[i].Writes = append(c.Ops[i].Writes, n)
					rest -= n
				}
			}
			continue
		}
		if c.Ops[i].Size > 70*1024 {
			c.Ops[i].Size = 2049 + c.Ops[i].Size%(68*1024)
			if c.Ops[i].K == "create" {
				c.Ops[i].Writes = []int{c.Ops[i].Size}
			}
		}
	}
	c.Client = []string{"simgrpc", "grpcreal", "inline"}[idx%3]
	if idx%9 == 2 {
		c.Client = "simgrpc" // keep the inline share small: C01-C03 cover it
	}
	if idx%16 == 1 || idx%16 == 10 {
		// many long keys: the key listing (one unary response carrying every key) and the key echoed
		// in a streamed read's header grow far beyond one content chunk
		n := 34 + r.Intn(12)
		id := uint64(900000)
		var fat []string
		for j := 0; j < n; j++ {
			k := fmt.Sprintf("fat-%02d-", j) + strings.Repeat(string(rune('a'+j%26)), 900+r.Intn(200))
			fat = append(fat, k)
			id++
			c.Ops = append(c.Ops, Op{K: "set", Key: k, ID: id, Size: 9 + r.Intn(40)})
			if j%8 == 7 {
				c.Ops = append(c.Ops, Op{K: "keys"})
			}
		}
		c.Ops = append(c.Ops, Op{K: "keys"}, Op{K: "getr", Key: fat[r.Intn(n)]}, Op{K: "del", Key: fat[r.Intn(n)]}, Op{K: "keys"})
		c.ReadBack = "auto"
		c.Keys = append(c.Keys, fat[0], fat[n-1])
	}
	if idx == 1207 || idx == 2407 {
		// a client that keeps a stream open and then does nothing at all for more than half a
		// minute (real time; real gRPC only): whatever the transport does to idle connections must
		// not be visible to the caller
		c.Client = "grpcreal"
		id := uint64(960000)
		c.Ops = append(c.Ops, Op{K: "set", Key: "idle-big", ID: id, Size: 3 << 20}, Op{K: "ropen", Key: "idle-big", N: 2000},
			Op{K: "copen", Key: "idle-new", ID: id + 1, Size: 600, Writes: []int{100, 500}, Pre: 1, N: 2001},
			Op{K: "sleep", N: 36000},
			Op{K: "cclose", N: 2001}, Op{K: "rread", N: 2000}, Op{K: "get", Key: "idle-new"})
		c.Keys = append(c.Keys, "idle-big", "idle-new")
		c.ReadBack = "none"
	}
	if idx%24 == 13 {
		// a reader handed out inside a transaction is still being read when the transaction ends: it
		// delivers its content to the end, through either client (several megabytes: far more than
		// any window the transport has buffered by then)
		id := uint64(970000)
		c.Ops = append(c.Ops, Op{K: "set", Key: "tx-stream", ID: id, Size: 3<<20 + r.Intn(2<<20)})
		c.Keys = append(c.Keys, "tx-stream")
		for j := 0; j < 2; j++ {
			tx := 900 + j
			c.Ops = append(c.Ops, Op{K: "begin", Tx: tx + 1, Level: r.Intn(4)}, Op{K: "ropen", Tx: tx + 1, Key: "tx-stream", N: 3000 + j},
				Op{K: []string{"commit", "rollback"}[j], Tx: tx + 1}, Op{K: "get", Key: c.Keys[0]}, Op{K: "rread", N: 3000 + j})
		}
		c.ReadBack = "none"
	}
	if idx%24 == 7 || idx%24 == 20 {
		// long-lived streams: as many readers of a content of several megabytes as the server has
		// workers (and one more) are handed out and left unread while ordinary calls go on; then they
		// are read to the end
		id := uint64(950000)
		n := c.World.NumWorkers + 1
		c.Ops = append(c.Ops, Op{K: "set", Key: "stream-big", ID: id, Size: 3<<20 + r.Intn(3<<20)})
		c.Keys = append(c.Keys, "stream-big")
		for j := 0; j < n; j++ {
			c.Ops = append(c.Ops, Op{K: "ropen", Key: "stream-big", N: 1000 + j})
			id++
			c.Ops = append(c.Ops, Op{K: "set", Key: c.Keys[0], ID: id, Size: 9 + r.Intn(100)}, Op{K: "get", Key: c.Keys[0]})
		}
		c.Ops = append(c.Ops, Op{K: "keys"})
		for j := 0; j < n; j++ {
			c.Ops = append(c.Ops, Op{K: "rread", N: 1000 + j})
		}
		c.ReadBack = "none"
	}
	return C11Case{Seq: &c}
}

func (p propC11) Decode(b json.RawMessage) (any, error) {
	var c C11Case
	err := json.Unmarshal(b, &c)
	return c, err
}

func (p propC11) Shrink(x any) []any {
	c := x.(C11Case)
	if c.Seq == nil {
		return nil
	}
	var out []any
	for _, s := range p.seqProp.Shrink(*c.Seq) {
		sc := s.(SeqCase)
		out = append(out, C11Case{Seq: &sc})
	}
	return out
}

func (p propC11) RealStub() map[string]string {
	m := seqProp{}.RealStub()
	m["client stack simgrpc"] = "generated stubs, pkg/external/db, delivery service, stream reader/writer, interceptors, both adapters real; HTTP/2 transport replaced by an in-process stub"
	m["client stack grpcreal"] = "everything real: app.New/Run on a loopback port, grpc-go, external.Open, unmodified sources (plain-flavour binary); scheduling not controlled, histories sequential and fault-free"
	return m
}

func (p propC11) Exec(x any, choices []int32) RunOut {
	c := x.(C11Case)
	if c.Err != nil {
		if c.Err.Transport == "grpcreal" {
			if out, ok := viaPlain(c); ok {
				return out
			}
		}
		return errCaseExec(*c.Err)
	}
	var out RunOut
	if c.Seq.Client == "grpcreal" {
		var ok bool
		if out, ok = viaPlain(c); !ok {
			out = grpcRealExec(*c.Seq)
		}
	} else {
		out = seqExec(*c.Seq, choices)
	}
	big, tx := false, false
	for _, o := range c.Seq.Ops {
		if o.Size > 2048 {
			big = true
		}
		if o.K == "begin" {
			tx = true
		}
	}
	out.NonTrivial = c.Seq.Client != "inline" && (big || tx)
	if out.Probes == nil {
		out.Probes = map[string]uint64{}
	}
	out.Probes["client:"+c.Seq.Client]++
	return out
}

// viaPlain hands a case to the plain-flavour binary (unmodified sources, real grpc-go).
func viaPlain(c C11Case) (RunOut, bool) {
	bin := os.Getenv("VERIF_PLAIN_BIN")
	if bin == "" || os.Getenv("VERIF_IS_PLAIN") == "1" {
		return RunOut{}, false
	}
	b, _ := json.Marshal(c)
	cmd := exec.Command(bin, "exec-case", "-prop", "C11")
	cmd.Stdin = bytes.NewReader(b)
	cmd.Env = append(os.Environ(), "VERIF_IS_PLAIN=1")
	var stderr bytes.Buffer
	cmd.Stderr = &stderr
	raw, err := cmd.Output()
	var out RunOut
	if err != nil || json.Unmarshal(raw, &out) != nil {
		return RunOut{Infra: fmt.Sprintf("plain-flavour child failed: %v: %s", err, firstLine(stderr.String()))}, true
	}
	return out, true
}

// ExecCaseStdin runs one case read from stdin and prints the RunOut (child side of viaPlain).
func ExecCaseStdin(prop string) int {
	p := Lookup(prop)
	if p == nil {
		return 2
	}
	b, err := io.ReadAll(os.Stdin)
	if err != nil {
		return 2
	}
	c, err := p.Decode(b)
	if err != nil {
		return 2
	}
	out := p.Exec(c, nil)
	raw, _ := json.Marshal(out)
	os.Stdout.Write(raw)
	return 0
}

// ---- real loopback gRPC ----------------------------------------------------------------------------

type realServer struct {
	addr   string
	cancel context.CancelFunc
	done   chan error
	stop   func() error
}

// freePort reserves a loopback port for this process: a lock file makes sure that no two
// harness processes (workers run in parallel) ever try the same port at the same time - a
// client must never reach another world's server.
func freePort() (int, func()) {
	os.MkdirAll("/dev/shm/verif-ports", 0o755)
	seed := uint64(os.Getpid())*2654435761 + uint64(time.Now().UnixNano())
	for attempt := 0; attempt < 200; attempt++ {
		seed = simrt.Mix(seed)
		port := 20000 + int(seed%40000)
		lock := fmt.Sprintf("/dev/shm/verif-ports/%d", port)
		f, err := os.OpenFile(lock, os.O_CREATE|os.O_EXCL|os.O_WRONLY, 0o644)
		if err != nil {
			// stale lock of a dead process?
			if b, rerr := os.ReadFile(lock); rerr == nil {
				var pid int
				fmt.Sscanf(string(b), "%d", &pid)
				if pid > 0 {
					if _, serr := os.Stat(fmt.Sprintf("/proc/%d", pid)); serr != nil {
						os.Remove(lock)
					}
				}
			}
			continue
		}
		fmt.Fprintf(f, "%d", os.Getpid())
		f.Close()
		l, err := net.Listen("tcp", fmt.Sprintf(":%d", port))
		if err != nil {
			os.Remove(lock)
			continue
		}
		l.Close()
		return port, func() { os.Remove(lock) }
	}
	return 0, func() {}
}

func startRealServer(w *World) (*realServer, error) {
	for attempt := 0; attempt < 5; attempt++ {
		port, release := freePort()
		if port == 0 {
			continue
		}
		cfg := w.Config()
		cfg.Port = port
		ctx, cancel := context.WithCancel(context.Background())
		a, err := app.New(ctx, cfg)
		if err != nil {
			cancel()
			return nil, err
		}
		stopApp := a.Stop
		rs := &realServer{addr: fmt.Sprintf("127.0.0.1:%d", port), cancel: cancel, done: make(chan error, 1), stop: func() error { defer release(); return stopApp() }}
		go func() { rs.done <- a.Run(ctx) }()
		deadline := time.Now().Add(5 * time.Second)
		for time.Now().Before(deadline) {
			select {
			case err := <-rs.done:
				cancel()
				a.Stop()
				_ = err
				rs = nil
			default:
			}
			if rs == nil {
				break
			}
			if conn, err := net.DialTimeout("tcp", rs.addr, 200*time.Millisecond); err == nil {
				conn.Close()
				return rs, nil
			}
			time.Sleep(2 * time.Millisecond)
		}
		if rs != nil {
			cancel()
			a.Stop()
		}
		release()
	}
	return nil, errors.New("could not start the loopback server")
}

func (rs *realServer) shutdown() error {
	rs.cancel()
	select {
	case <-rs.done:
	case <-time.After(10 * time.Second):
		return errors.New("server did not stop within 10s")
	}
	return rs.stop()
}

// grpcRealExec runs a sequential history through external.Open against app.New/Run. No
// simulator: this is the fidelity tier (real synchronisation, real grpc-go, no faults).
func grpcRealExec(c SeqCase) RunOut {
	s := &seqRun{c: c, m: refmodel.New(), idx: &valueIndex{}, states: map[uint64]bool{}, probes: map[string]uint64{},
		faults: map[string]uint64{}}
	out := RunOut{Probes: s.probes}
	b, _ := json.Marshal(c.Ops)
	h := fnv.New64a()
	h.Write(b)
	h.Write([]byte("grpcreal"))
	out.CaseHash = h.Sum64()
	out.Sample, _ = json.Marshal(map[string]any{"client": "grpcreal", "keys": c.Keys, "ops": opsSummary(c.Ops)})
	// real time here: the world's simulated-time knobs must not become real background churn
	c.World.GCPeriodNs = int64(time.Hour)
	c.World.SendDurNs = int64(time.Millisecond)
	w, err := NewWorld(c.World, c.Sched.Seed)
	if err != nil {
		out.Infra = err.Error()
		return out
	}
	defer w.Destroy()
	s.w = w
	uuid.SetRand(nil) // handlers run on grpc-go's goroutines: use the default, concurrency-safe source
	rs, err := startRealServer(w)
	if err != nil {
		out.Infra = "grpcreal: " + err.Error()
		return out
	}
	db, err := external.Open(w.Ctx, rs.addr)
	if err != nil {
		rs.shutdown()
		out.Infra = "grpcreal: external.Open: " + err.Error()
		return out
	}
	s.a = &actors{db: db, txs: map[int]fs_db.Tx{}}
	var cancels []context.CancelFunc
	for i, o := range c.Ops {
		switch o.K {
		case "gc", "gctimer", "bg", "drain", "reopen":
			continue // the server's internals are out of reach of a real client
		}
		// every call gets half a minute of real time: a call that never returns (the client parked
		// by the transport, say) becomes an error the model does not expect instead of a hang
		if o.K == "sleep" {
			time.Sleep(time.Duration(o.N) * time.Millisecond) // real time: the connection is idle, streams stay open
			continue
		}
		ctx, cancel := context.WithTimeout(context.Background(), 120*time.Second)
		cancels = append(cancels, cancel)
		w.Ctx = ctx
		if !s.step(i, o) {
			break
		}
	}
	w.Ctx = context.Background()
	for _, hr := range s.readers {
		hr.rc.Close()
	}
	for _, id := range s.m.OpenTxs() {
		s.a.txs[id].Rollback(w.Ctx)
	}
	for _, cancel := range cancels {
		cancel()
	}
	db.Close()
	if err := rs.shutdown(); err != nil && s.viol == nil {
		out.Infra = "grpcreal: " + err.Error()
	}
	if s.viol != nil {
		s.viol.Signature += ",client=grpcreal"
		out.Violation = s.viol
	}
	return out
}

// ---- error values through the adapters ----------------------------------------------------------

type errUseCase struct{ err error }

func (u errUseCase) Set(_ context.Context, _ string, content io.Reader) error {
	io.Copy(io.Discard, content)
	return u.err
}
func (u errUseCase) Get(context.Context, string) (io.ReadCloser, error) { return nil, u.err }
func (u errUseCase) GetKeys(context.Context) ([]string, error)          { return nil, u.err }
func (u errUseCase) Delete(context.Context, string) error               { return u.err }
func (u errUseCase) Begin(context.Context, model.TxIsoLevel) (string, error) {
	return "", u.err
}
func (u errUseCase) Commit(context.Context) error   { return u.err }
func (u errUseCase) Rollback(context.Context) error { return u.err }

var errForeign = errors.New("some storage failure")

func buildErr(e ErrCase) error {
	var base error
	for _, s := range sentinels {
		if s.name == e.Sentinel {
			base = s.err
		}
	}
	if base == nil {
		base = errors.New("an error without sentinel")
	}
	err := base
	for d := 0; d < e.Depth; d++ {
		err = fmt.Errorf("layer %d: %w", d, err)
	}
	if e.Joined {
		err = errors.Join(errForeign, err)
	}
	return err
}

// normClass: ErrUnknown is what the client reports for "no sentinel"; both mean the same class.
func normClass(c string) string {
	parts := strings.Split(c, "+")
	var keep []string
	for _, p := range parts {
		if p != "ErrUnknown" && p != "other" && p != "" {
			keep = append(keep, p)
		}
	}
	if len(keep) == 0 {
		return "none"
	}
	return strings.Join(keep, "+")
}

func errCaseExec(e ErrCase) RunOut {
	out := RunOut{NonTrivial: true, Probes: map[string]uint64{"sentinel-cases": 1}}
	b, _ := json.Marshal(e)
	h := fnv.New64a()
	h.Write(b)
	out.CaseHash = h.Sum64()
	out.Sample = b
	serverErr := buildErr(e)
	want := normClass(classOf(serverErr))
	svc := grpcstore.New(errUseCase{serverErr}, errUseCase{serverErr})
	var db fs_db.DB
	var cleanup func()
	if e.Transport == "grpcreal" {
		srv, addr, err := startStubServer(svc)
		if err != nil {
			out.Infra = "stub server: " + err.Error()
			return out
		}
		d, err := external.Open(context.Background(), addr)
		if err != nil {
			srv()
			out.Infra = err.Error()
			return out
		}
		db, cleanup = d, srv
	} else {
		l := newGrpcLink()
		store.RegisterStoreV1Server(l, svc)
		db, cleanup = externaldb.VerifNewWithConn(l), func() {}
	}
	defer cleanup()
	ctx := context.Background()
	var viol *Violation
	check := func(rpc string, err error) {
		if viol != nil {
			return
		}
		got := normClass(classOf(err))
		if err == nil {
			got = "nil"
		}
		if got != want {
			viol = &Violation{Class: "error-class", Signature: fmt.Sprintf("C11|error-class|sentinel=%s,rpc=%s,transport=%s", e.Sentinel, rpc, e.Transport),
				Detail: fmt.Sprintf("the server-side use case returned %q (class %s, depth %d, joined %v); %s through the external client returned class %s (%v)", serverErr, want, e.Depth, e.Joined, rpc, got, err)}
		}
	}
	run := func() {
		tx := fs_db.CreateTx(db, nopTxOps{}, func(c context.Context) context.Context { return c })
		_ = tx
		for _, rpc := range e.RPCs {
			switch rpc {
			case "set":
				check(rpc, db.Set(ctx, "k", []byte("value")))
			case "setr":
				check(rpc, db.SetReader(ctx, "k", bytes.NewReader(payload(3, 5000))))
			case "create":
				f, err := db.Create(ctx, "k")
				if err == nil {
					_, werr := f.Write(payload(4, 3000))
					cerr := f.Close()
					if werr != nil {
						err = werr
					} else {
						err = cerr
					}
				}
				check(rpc, err)
			case "get":
				_, err := db.Get(ctx, "k")
				check(rpc, err)
			case "getr":
				rc, err := db.GetReader(ctx, "k")
				if err == nil {
					_, err = readAllClose(rc)
				}
				check(rpc, err)
			case "keys":
				_, err := db.GetKeys(ctx)
				check(rpc, err)
			case "del":
				check(rpc, db.Delete(ctx, "k"))
			case "begin":
				_, err := db.Begin(ctx)
				check(rpc, err)
			}
		}
	}
	if e.Transport == "grpcreal" {
		run()
	} else {
		res := simrt.Run(simrt.Config{Seed: 1, Strategy: "fifo", MaxSteps: 2_000_000}, run)
		if res.Status != simrt.StatusOK {
			finishStatus(&out, res, "C11", nil, "err")
			return out
		}
	}
	out.Violation = viol
	return out
}

type nopTxOps struct{}

func (nopTxOps) Commit(context.Context) error   { return nil }
func (nopTxOps) Rollback(context.Context) error { return nil }
