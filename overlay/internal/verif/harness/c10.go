package harness

import (
	"bytes"
	"context"
	"encoding/json"
	"errors"
	"fmt"
	"hash/fnv"
	"io"

	"github.com/glebziz/fs_db"
	"github.com/glebziz/fs_db/internal/verif/refmodel"
	"github.com/glebziz/fs_db/internal/verif/sctx"
	"github.com/glebziz/fs_db/internal/verif/simrt"
)

// C10 — a write that fails or is aborted leaves no trace; a write reported successful is
// complete; a root with room is used.

type RoomSpec struct {
	Room    int64 `json:"room"`    // bytes the root really has left (beyond what it stores)
	Report  int64 `json:"report"`  // bytes it reports as free (>= Room; larger = quota/reserved blocks)
	Partial bool  `json:"partial"` // a failing write first stores what still fits
}

type FaultCase struct {
	Sched  SchedSpec  `json:"sched"`
	World  WorldSpec  `json:"world"`
	Client string     `json:"client"` // inline | simgrpc
	Key    string     `json:"key"`
	Prev   int        `json:"prev"` // size of the previous value, -1 none
	L      int        `json:"len"`
	Via    string     `json:"via"` // set | setr | create
	Shape  string     `json:"shape,omitempty"`
	Kind   string     `json:"kind"` // enospc | reader | cancel | cut | none
	Rooms  []RoomSpec `json:"rooms,omitempty"`
	FailAt int        `json:"fail_at,omitempty"` // reader error / cancel / cut position (source offset or message number)
	CutDir string     `json:"cut_dir,omitempty"`
	Writes []int      `json:"writes,omitempty"`
	// ErrKind (kind reader): what the failing source returns: "" a plain error; "wrapeof" an error
	// wrapping io.EOF (only the bare sentinel means end of data); "unexpected" io.ErrUnexpectedEOF;
	// "withdata" the plain error together with the last bytes before the failure
	ErrKind string `json:"err_kind,omitempty"`
}

var errSource = errors.New("source reader failed (injected)")
var errSourceEOF = fmt.Errorf("source reader failed (injected), connection closed: %w", io.EOF)

func sourceErr(kind string) error {
	switch kind {
	case "wrapeof":
		return errSourceEOF
	case "unexpected":
		return io.ErrUnexpectedEOF
	}
	return errSource
}

// failingReader returns the content up to FailAt, then an error; cancelAt >= 0 cancels a
// context instead when that offset is reached.
type failingReader struct {
	b      []byte
	off    int
	failAt int
	cancel context.CancelFunc
	fired  *bool
	chunk  int
	err    error // nil: errSource
	withD  bool  // the error comes together with the bytes before the failure
}

func (r *failingReader) Read(p []byte) (int, error) {
	if len(p) == 0 {
		return 0, nil
	}
	if r.off >= r.failAt && r.failAt >= 0 {
		*r.fired = true
		if r.cancel != nil {
			r.cancel()
			r.failAt = -1 // keep reading: the caller decides what a cancelled context means
		} else {
			if r.err != nil {
				return 0, r.err
			}
			return 0, errSource
		}
	}
	if r.off >= len(r.b) {
		return 0, io.EOF
	}
	n := len(p)
	if r.chunk > 0 && n > r.chunk {
		n = r.chunk
	}
	if r.failAt >= 0 && r.off+n > r.failAt {
		n = r.failAt - r.off
	}
	if r.off+n > len(r.b) {
		n = len(r.b) - r.off
	}
	copy(p, r.b[r.off:r.off+n])
	r.off += n
	if r.withD && r.cancel == nil && r.failAt >= 0 && r.off >= r.failAt && n > 0 {
		*r.fired = true
		if r.err != nil {
			return n, r.err
		}
		return n, errSource
	}
	return n, nil
}

// c10RawUpload (set where the gRPC packages are linked in): an upload through the generated stub,
// message by message.
var c10RawUpload func(w *World, ctx context.Context, key string, content []byte, sizes []int, odd string, at int) error

type propC10 struct{}

func init() { Register(propC10{}) }

func (propC10) ID() string    { return "C10" }
func (propC10) Level() string { return "fault_enumeration" }
func (propC10) Rule() string {
	return "cases: a Set/SetReader/Create of length L (L from {1, 100, 2047..2049, 32767..32769, 65537, seeded <= 150 KiB}) on a key with or without a previous value, 1-3 roots; fault kinds enumerated by run index: ENOSPC with the failing roots' real room at each of {0, 1, chunk-1, chunk, chunk+1, L-1} and seeded positions (chunk = 32 KiB copy buffer), all-or-nothing and after a partial write, on every non-empty subset of roots, honest and over-reporting disks; a file write failing with EIO at those positions (nothing to continue elsewhere with); source reader failing at each of those offsets (5 read shapes; a plain error, an error wrapping io.EOF, io.ErrUnexpectedEOF, the error returned together with the last bytes); context cancelled at a source offset; through the inline client and the external client over the simulated gRPC transport (there also: link cut after the k-th message in either direction, server-side rejection, and fault-free uploads through the generated stub in shapes a foreign client may use: chunks of any size, a chunk without bytes, a message with nothing set or the header again somewhere in the stream); fault-free control runs; oracle: (a) nil => Get returns the source bytes exactly, (b) error => right class and the key still reads its previous value / not found, (c) a root that really has room and reported more free space (and > 0) than every root that has not => nil; distinct = hash(case); non-trivial = the injected fault actually fired before the last byte was stored"
}
func (propC10) Assumptions() []string {
	return []string{
		"disk faults are injected at the project's own os seam (file Write returns ENOSPC, fully or after a partial write); the free space a root reports is what the simulated disk says at the time the directories are fetched (runs start from a quiesced world)",
		"gRPC faults act on the in-process transport stub whose SendMsg/RecvMsg/cancel/cut semantics follow grpc-go; real grpc-go is exercised fault-free by C11",
		"crash-type faults belong to C04; read errors and bit flips in content files are not injected (no listed property speaks about them)",
	}
}
func (propC10) RealStub() map[string]string {
	m := seqProp{}.RealStub()
	m["gRPC transport (client simgrpc)"] = "in-process stub (generated stubs, pkg/external/db, delivery service, stream reader/writer, interceptors, error adapter are real)"
	return m
}
func (propC10) Runs(tier string) int {
	if tier == "thorough" {
		return 200_000
	}
	return 25000
}

func c10Positions(L int) []int {
	const chunk = 32768
	ps := []int{0, 1, chunk - 1, chunk, chunk + 1, L - 1, L / 2}
	var out []int
	seen := map[int]bool{}
	for _, p := range ps {
		if p >= 0 && p < L && !seen[p] {
			seen[p] = true
			out = append(out, p)
		}
	}
	return out
}

func (propC10) Gen(r *simrt.Rand, idx int, tier string) any {
	c := FaultCase{Client: "inline", Key: keyPool[r.Intn(len(keyPool))], Prev: -1}
	if simGrpcAvailable() && idx%3 == 2 {
		c.Client = "simgrpc"
	}
	c.World = genWorldSpec(r)
	c.Sched = SchedSpec{Seed: r.Uint64(), Strategy: "seqbg", MaxSteps: 3_000_000}
	if r.Intn(3) > 0 {
		c.Prev = 9 + r.Intn(5000)
	}
	c.L = []int{1, 100, 2047, 2048, 2049, 32767, 32768, 32769, 65537, 1 + r.Intn(150*1024), 1 + r.Intn(5000)}[r.Intn(11)]
	c.Via = []string{"set", "setr", "setr", "create"}[r.Intn(4)]
	c.Shape = []string{"plain", "plain", "short", "zero", "dataeof"}[r.Intn(5)]
	pos := c10Positions(c.L)
	p := pos[(idx/7)%len(pos)]
	if r.Intn(4) == 0 {
		p = r.Intn(c.L)
	}
	kinds := []string{"enospc", "enospc", "enospc", "reader", "reader", "cancel", "none"}
	if c.Client == "simgrpc" {
		kinds = []string{"enospc", "reader", "cancel", "cut", "cut", "reject", "none"}
	}
	c.Kind = kinds[idx%7]
	if c.Kind == "enospc" && (idx/7)%4 == 3 {
		// a write error that is not "no space" (EIO) after p bytes of the content: there is nothing to
		// continue elsewhere with - the write fails, or, if it does report success, is complete
		c.Kind = "eio"
		c.FailAt = p
		for len(c.World.Roots) < 2 {
			c.World.Roots = append(c.World.Roots, RootSpec{})
		}
	}
	switch c.Kind {
	case "enospc":
		n := len(c.World.Roots)
		// which roots fail: every non-empty subset in turn; the others have room (or, for the full
		// set, nobody has)
		mask := 1 + (idx/49)%((1<<n)-1)
		over := r.Intn(3) == 0
		for i := 0; i < n; i++ {
			rs := RoomSpec{Partial: r.Intn(2) == 0}
			if mask&(1<<i) != 0 {
				rs.Room = int64(p)
				if r.Intn(3) == 0 {
					rs.Room = int64(r.Intn(c.L))
				}
				rs.Report = rs.Room
				if over {
					rs.Report = rs.Room + int64(1+r.Intn(2*c.L+10))
				}
			} else {
				rs.Room = int64(c.L + r.Intn(c.L+100))
				rs.Report = rs.Room
				if r.Intn(4) == 0 {
					rs.Report += int64(r.Intn(1000))
				}
			}
			c.Rooms = append(c.Rooms, rs)
		}
	case "reader", "cancel":
		c.FailAt = p
		if c.Kind == "reader" {
			c.ErrKind = []string{"", "", "wrapeof", "unexpected", "withdata"}[(idx/21)%5]
		}
		if c.Via == "set" {
			c.Via = "setr"
		}
		if c.Via == "create" && c.Kind == "cancel" {
			// the caller's context is cancelled between two Write calls of a created file (FailAt is
			// then the index of the Write before which it happens; len(Writes) = before Close)
			c.Writes = splitWrites(r, c.L)
			c.FailAt = r.Intn(len(c.Writes) + 1)
		} else if c.Via == "create" {
			c.Via = "setr"
		}
	case "cut":
		c.FailAt = r.Intn(2 + c.L/2048 + 2)
		c.CutDir = []string{"c2s", "s2c"}[r.Intn(2)]
	case "reject":
		c.Key = ""
		c.Via = "setr"
	case "none":
		if c.Client == "simgrpc" && c10RawUpload != nil && idx%2 == 0 {
			// no fault at all, but an upload as a foreign client might send it: chunks of any size,
			// and one message that carries no bytes (or the header again) somewhere in between
			c.Via = "raw"
			c.Writes = nil
			for rest := c.L; rest > 0 && len(c.Writes) < 40; {
				n := 1 + r.Intn(min(rest, []int{1, 100, 2048, 5000, 40000}[r.Intn(5)]))
				c.Writes = append(c.Writes, n)
				rest -= n
			}
			c.Shape = []string{"emptychunk", "emptychunk", "nilchunk", "nodata", "header2", "sizes"}[r.Intn(6)]
			c.FailAt = r.Intn(len(c.Writes) + 1)
		}
	}
	if c.Via == "create" && c.Writes == nil {
		c.Writes = splitWrites(r, c.L)
	}
	return c
}

func (propC10) Decode(b json.RawMessage) (any, error) {
	var c FaultCase
	err := json.Unmarshal(b, &c)
	return c, err
}

func (propC10) Shrink(x any) []any {
	c := x.(FaultCase)
	var out []any
	if c.Prev >= 0 {
		d := c
		d.Prev = -1
		out = append(out, d)
	}
	if c.Shape != "plain" {
		d := c
		d.Shape = "plain"
		out = append(out, d)
	}
	if len(c.Rooms) > 1 {
		for i := range c.Rooms {
			d := c
			d.Rooms = append(append([]RoomSpec(nil), c.Rooms[:i]...), c.Rooms[i+1:]...)
			d.World.Roots = d.World.Roots[:len(d.Rooms)]
			out = append(out, d)
		}
	}
	if c.Via == "create" {
		d := c
		d.Via = "setr"
		d.Writes = nil
		out = append(out, d)
	}
	return out
}

func (propC10) Exec(x any, choices []int32) RunOut {
	c := x.(FaultCase)
	var (
		viol   *Violation
		infra  string
		w      *World
		fired  bool
		faults = map[string]uint64{}
		probes = map[string]uint64{}
	)
	fail := func(class, sig, detail string) {
		if viol == nil {
			viol = &Violation{Class: class, Signature: fmt.Sprintf("C10|%s|%s,kind=%s,client=%s", class, sig, c.Kind, c.Client), Detail: detail}
		}
	}
	cfg := c.Sched.config(choices)
	cfg.Strategy = "seqbg"
	res := simrt.Run(cfg, func() {
		var err error
		w, err = NewWorld(c.World, c.Sched.Seed)
		if err != nil {
			infra = err.Error()
			return
		}
		if err := w.Open(); err != nil {
			infra = "open: " + err.Error()
			return
		}
		defer func() {
			// always wind the database down (otherwise its timer loop runs forever)
			if err := w.Close(); err != nil && viol == nil {
				fail("error-class", "close", "database Close failed: "+err.Error())
			}
		}()
		var db fs_db.DB = w.DB
		var link *simLink
		if c.Client == "simgrpc" {
			db, link = newSimGrpc(w)
		}
		var prev []byte
		if c.Prev >= 0 {
			prev = payload(1000, c.Prev)
			if err := w.DB.Set(w.Ctx, c.Key, prev); err != nil && c.Key != "" {
				infra = "initial Set: " + err.Error()
				return
			}
		}
		w.Drain()
		content := payload(7, c.L)
		ctx := w.Ctx
		var cancel context.CancelFunc
		mustSucceed := false
		wantClass := ""
		if c.Kind == "enospc" {
			caps := make([]RootSpec, len(c.Rooms))
			var bestGood, worstBad int64 = -1, -1
			for i, rs := range c.Rooms {
				used := w.usedBytes(i)
				caps[i] = RootSpec{Reported: used + rs.Report, Real: used + rs.Room, Partial: rs.Partial}
				if rs.Room >= int64(c.L) {
					if rs.Report > bestGood {
						bestGood = rs.Report
					}
				} else if rs.Report > worstBad {
					worstBad = rs.Report
				}
			}
			w.SetCapacitiesExact(caps)
			mustSucceed = bestGood > 0 && bestGood > worstBad
			wantClass = "ErrNoFreeSpace"
		}
		var src io.Reader = &shapedReader{b: content, shape: c.Shape}
		switch c.Kind {
		case "reader":
			src = &failingReader{b: content, failAt: c.FailAt, fired: &fired, chunk: 1500, err: sourceErr(c.ErrKind), withD: c.ErrKind == "withdata"}
			wantClass = "source"
		case "cancel":
			ctx, cancel = sctx.WithCancel(w.Ctx)
			if c.Via != "create" {
				src = &failingReader{b: content, failAt: c.FailAt, fired: &fired, cancel: cancel, chunk: 1500}
			}
			wantClass = "cancel"
		case "eio":
			w.Disk.EIOAfter, w.Disk.EIOArmed = int64(c.FailAt), true
			wantClass = "any"
		case "cut":
			link.cutAfter(c.CutDir, c.FailAt, &fired)
			wantClass = "any"
		case "reject":
			wantClass = "ErrEmptyKey"
		}
		var opErr error
		switch c.Via {
		case "set":
			opErr = db.Set(ctx, c.Key, content)
		case "raw":
			opErr = c10RawUpload(w, ctx, c.Key, content, c.Writes, c.Shape, c.FailAt)
			if c.Shape != "sizes" {
				faults["upload-with-a-message-carrying-no-bytes-or-a-repeated-header"]++
			}
			fired = true
		case "setr":
			opErr = db.SetReader(ctx, c.Key, src)
		case "create":
			f, err := db.Create(ctx, c.Key)
			if err != nil {
				opErr = err
				break
			}
			b := content
			var cb callerBuf
			for i, n := range c.Writes {
				if c.Kind == "cancel" && i == c.FailAt {
					fired = true
					cancel()
				}
				if _, err := cb.write(f, b[:n]); err != nil {
					opErr = err
					break
				}
				b = b[n:]
			}
			if c.Kind == "cancel" && c.FailAt >= len(c.Writes) && opErr == nil {
				fired = true
				cancel()
			}
			if cerr := f.Close(); opErr == nil {
				opErr = cerr
			}
		}
		if cancel != nil {
			cancel()
		}
		if link != nil {
			link.heal()
		}
		if w.Disk != nil && w.Disk.Stats.EIO > 0 {
			fired = true
			faults["eio-on-content-write"] += w.Disk.Stats.EIO
		}
		if w.Disk != nil {
			w.Disk.EIOArmed = false
		}
		if w.Disk != nil && w.Disk.Stats.ENOSPC > 0 {
			fired = true
			faults["enospc"] += w.Disk.Stats.ENOSPC
			faults["enospc-after-partial-write"] += w.Disk.Stats.PartialWrites
		}
		if fired {
			faults["fault-fired:"+c.Kind]++
		}
		w.SetCapacities(nil)
		w.Drain()
		// an independent reader
		got, gerr := w.DB.Get(w.Ctx, c.Key)
		idx := &valueIndex{}
		idx.add(refmodel.Val{ID: 7, Size: c.L})
		if c.Prev >= 0 {
			idx.add(refmodel.Val{ID: 1000, Size: c.Prev})
		}
		cl := classOf(opErr)
		if opErr == nil {
			if c.Kind == "reject" {
				fail("error-class", "rejection-swallowed", "the server rejected the write (empty key) but the caller got nil")
				return
			}
			if c.Kind == "reader" && c.FailAt < c.L {
				fail("error-class", "source-error-swallowed", fmt.Sprintf("the source reader failed at offset %d of %d but the write returned nil", c.FailAt, c.L))
				return
			}
			if gerr != nil {
				fail("lost-write", "get-after-success", fmt.Sprintf("the write returned nil but Get fails: %v", gerr))
			} else if !bytes.Equal(got, content) {
				fail("partial-or-mixed-content", "success-not-complete", fmt.Sprintf("the write of %d bytes returned nil but Get returns %s", c.L, idx.describe(got)))
			}
			if w.Disk != nil && fired && c.Kind == "enospc" {
				probes["retry-on-another-root-succeeded"]++
			}
			return
		}
		// the write failed
		if mustSucceed {
			fail("error-class", "room-not-used", fmt.Sprintf("a root with room for %d bytes reported more free space than every root without, yet the write failed: %v (rooms %+v)", c.L, opErr, c.Rooms))
			return
		}
		switch wantClass {
		case "":
			fail("error-class", "spurious-error", fmt.Sprintf("nothing was injected, the write failed: %v", opErr))
		case "ErrNoFreeSpace", "ErrEmptyKey":
			if cl != wantClass {
				fail("error-class", "wrong-class", fmt.Sprintf("the write failed with class %q (%v), want %s", cl, opErr, wantClass))
			}
		case "source":
			if c.Client == "inline" && !errors.Is(opErr, sourceErr(c.ErrKind)) {
				fail("error-class", "wrong-class", fmt.Sprintf("the source reader failed; the write returned %v, which does not wrap the reader's error", opErr))
			}
		}
		if c.Key == "" {
			return
		}
		if (c.Kind == "cut" || (c.Kind == "cancel" && c.Client == "simgrpc")) && gerr == nil && bytes.Equal(got, content) {
			// the link broke after the server had everything (or the response was lost): the caller
			// cannot know; a complete new value is as legitimate as the old one, a partial one never is
			// (a cancellation races with the frames already queued, as it does over real HTTP/2)
			probes["abort-after-server-completed"]++
			return
		}
		if c.Prev >= 0 {
			if gerr != nil {
				fail("lost-write", "previous-value-gone", fmt.Sprintf("the write failed (%v) and the key's previous value is gone: Get -> %v", opErr, gerr))
			} else if !bytes.Equal(got, prev) {
				fail("partial-or-mixed-content", "failed-write-visible", fmt.Sprintf("the write failed (%v) but the key no longer holds its previous value (%d bytes): Get returns %s", opErr, c.Prev, idx.describe(got)))
			}
		} else if gerr == nil {
			fail("partial-or-mixed-content", "failed-write-visible", fmt.Sprintf("the write failed (%v) but the key now exists: Get returns %s", opErr, idx.describe(got)))
		} else if classOf(gerr) != "ErrNotFound" {
			fail("error-class", "get-after-failure", fmt.Sprintf("Get after the failed write: %v", gerr))
		}
	})
	if w != nil {
		w.Destroy()
	}
	out := RunOut{Steps: res.Steps, Switches: res.Switches, TimerFires: res.TimerFires, SimNs: res.SimTimeNs,
		TraceHash: res.TraceHash, SwitchHash: res.SwitchHash, Choices: res.Choices, Log: res.Log, Faults: faults, Probes: probes,
		NonTrivial: fired}
	b, _ := json.Marshal(c)
	h := fnv.New64a()
	h.Write(b)
	out.CaseHash = h.Sum64()
	out.Sample = b
	if infra != "" {
		out.Infra = infra
		out.MustExit = true
		return out
	}
	if viol != nil && res.Status == simrt.StatusOK {
		// the world was wound down normally
	}
	finishStatus(&out, res, "C10", viol, "fault")
	return out
}
