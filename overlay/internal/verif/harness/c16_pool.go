package harness

import (
	"context"
	"encoding/json"
	"fmt"
	"hash/fnv"
	"os"
	"sort"
	"strings"
	"time"

	"github.com/glebziz/fs_db/internal/utils/wpool"
	"github.com/glebziz/fs_db/internal/verif/sctx"
	"github.com/glebziz/fs_db/internal/verif/simrt"
)

// C16 — poolsim: the real worker pool (rewritten), simulated clock, seeded schedules.

type PoolAct struct {
	Kind string `json:"k"`           // send | stop | run | yield
	Job  string `json:"j,omitempty"` // quick | gated | stubborn
}

type PoolPhase struct {
	Senders [][]PoolAct `json:"senders"`
	// StopDuring: a goroutine calls Stop while the senders are still sending (then only
	// at-most-once and the Stop ordering rules are checked for this phase's jobs).
	StopDuring bool `json:"stop_during,omitempty"`
	StopAfter  bool `json:"stop_after,omitempty"` // Stop after the phase was checked, Run again before the next
	// CtxFirst (with StopDuring, in programs whose Runs have contexts of their own): the context this
	// life was run with ends first, then Stop is called - the order of a server that stops on a
	// signal; Stop must still wait for whatever is in flight
	CtxFirst bool `json:"ctx_first,omitempty"`
}

type PoolCase struct {
	Sched      SchedSpec   `json:"sched"`
	NumWorkers int         `json:"workers"`
	SendDurNs  int64       `json:"send_ns"`
	Mode       string      `json:"mode"` // normal | anyorder
	Phases     []PoolPhase `json:"phases,omitempty"`
	AnyOrder   [][]PoolAct `json:"anyorder,omitempty"` // per goroutine: arbitrary Run/Stop/Send order
	// CtxPerRun (normal mode): every Run gets a context of its own; the contexts of earlier lives
	// (whose Stop has returned) are cancelled while the senders of a later life are at work
	CtxPerRun bool `json:"ctx_per_run,omitempty"`
}

// SchedSpec is the schedule part of a case.
type SchedSpec struct {
	Seed       uint64  `json:"seed"`
	Strategy   string  `json:"strategy"`
	PCTDepth   int     `json:"pct_depth,omitempty"`
	PCTSteps   int     `json:"pct_steps,omitempty"`
	TimerProb  float64 `json:"timer_prob,omitempty"`
	Bias       float64 `json:"bias,omitempty"`
	MaxSteps   uint64  `json:"max_steps,omitempty"`
	StallG     int     `json:"stall_g,omitempty"`     // stall: which client (1-based) is the slow one
	StallAt    uint64  `json:"stall_at,omitempty"`    // stall: at which of its decision points it is suspended
	StallMax   uint64  `json:"stall_max,omitempty"`   // stall: for how many steps of the others at most (0: until nothing else can run)
	StallAgain uint64  `json:"stall_again,omitempty"` // stall: suspended a second time this many of its own decision points later
	// stretch: client StallG is held back before every step of kind StretchTag, for StretchFor
	// steps of the others, at most StretchTimes times
	StretchTag   string `json:"stretch_tag,omitempty"`
	StretchFor   uint64 `json:"stretch_for,omitempty"`
	StretchTimes int    `json:"stretch_times,omitempty"`
	// PerCallCtx (database programs): every client call gets a context of its own that is cancelled
	// the moment the call has returned (the `defer cancel()` idiom), while the work the call left
	// behind (queued deletions) is still under way
	PerCallCtx bool `json:"per_call_ctx,omitempty"`
}

func (s SchedSpec) config(choices []int32) simrt.Config {
	return simrt.Config{Lenient: os.Getenv("VERIF_LENIENT") == "1", Seed: s.Seed, Strategy: s.Strategy, PCTDepth: s.PCTDepth, PCTSteps: s.PCTSteps,
		TimerProb: s.TimerProb, SwitchBias: s.Bias, MaxSteps: s.MaxSteps, Replay: choices, KeepLog: 60, StallG: s.StallG, StallAt: s.StallAt, StallMax: s.StallMax, StallAgain: s.StallAgain,
		StretchTag: s.StretchTag, StretchFor: s.StretchFor, StretchTimes: s.StretchTimes}
}

// kinds of decision points the stretch strategy holds a client back at (tags of simrt/simos/simbadger)
var stretchTags = []string{"badger.view", "badger.view", "io.badger.update", "os.Open", "io.remove", "io.create", "RWMutex.RLock", "RWMutex.Lock", "Mutex.Lock", "atomic.Add", "select"}

func genSched(r *simrt.Rand, estSteps int) SchedSpec {
	s := SchedSpec{Seed: r.Uint64(), MaxSteps: 400_000}
	switch r.Pick(5, 4, 2, 3, 3) {
	case 4:
		// one client is held back whenever it is about to take a step of one kind (a look-up in the
		// metadata store, the opening of a file, a lock of some sort ...), several times in a row
		s.Strategy = "stretch"
		s.Bias = []float64{0.5, 0.9}[r.Intn(2)]
		s.TimerProb = 0.01
		s.StallG = 1 + r.Intn(3)
		s.StretchTag = stretchTags[r.Intn(len(stretchTags))]
		s.StretchFor = uint64([]int{40, 120, 300, 800}[r.Intn(4)])
		s.StretchTimes = 1 + r.Intn(4)
	case 3:
		// one slow client: suspended at one of its own decision points until nothing else can run
		s.Strategy = "stall"
		s.Bias = []float64{0.5, 0.9, 0.97}[r.Intn(3)]
		s.TimerProb = 0.01
		s.StallG = 1 + r.Intn(3)
		s.StallAt = uint64(r.Intn(estSteps/2 + 1))
		if r.Intn(3) == 0 {
			// slow twice: a bounded first suspension, a second one a few of its own steps later
			s.StallMax = uint64([]int{60, 150, 400, 1000}[r.Intn(4)])
			s.StallAgain = uint64(1 + r.Intn(12))
		}
	case 0:
		s.Strategy = "uniform"
		s.TimerProb = []float64{0, 0.01, 0.05, 0.2}[r.Intn(4)]
		s.Bias = []float64{0, 0.5, 0.8, 0.95, 0.99}[r.Intn(5)] // 0.99: long uninterrupted stretches, one goroutine overtakes another's whole operation
	case 1:
		s.Strategy = "pct"
		s.PCTDepth = 1 + r.Intn(3)
		s.PCTSteps = estSteps
	default:
		s.Strategy = "uniform"
		s.Bias = 0.9
		s.TimerProb = 0.02
	}
	s.PerCallCtx = r.Intn(3) == 0
	return s
}

type propC16 struct{}

func init() { Register(propC16{}) }

func (propC16) ID() string    { return "C16" }
func (propC16) Level() string { return "exploration" }
func (propC16) Rule() string {
	return "cases: seeded pool programs (1-3 workers, 2-4 concurrent senders, quick and gate-blocked jobs, Stop/Run cycles (half of the programs: every Run with a context of its own, the contexts of earlier lives ending during later ones, and the context of the current life ending right before a Stop that races with the senders), Stop racing with senders, arbitrary Run/Stop/Send orders) x seeded schedule (uniform/PCT); distinct = hash(program, context-switch trace); non-trivial = at least one Send timed out into the deferred list, or a Stop overlapped a Send or a running job, or (any-order mode) two lifecycle calls overlapped"
}
func (propC16) Assumptions() []string {
	return []string{
		"interleavings are explored at the granularity of sync/atomic/channel/timer operations of the pool code (data-race-free code cannot observe finer ones)",
		"the Go runtime's channel and context implementations are trusted; context.AfterFunc callbacks run as managed goroutines",
		"jobs honour their context (they return once it is cancelled)",
	}
}
func (propC16) RealStub() map[string]string {
	return map[string]string{"internal/utils/wpool": "real (rewritten sync/time/context/select)", "internal/model/core (list, pool)": "real",
		"clock": "simulated", "jobs": "harness stubs (counting, gate-blocked)"}
}
func (propC16) Runs(tier string) int {
	if tier == "thorough" {
		return 2_000_000
	}
	return 300_000
}

func (propC16) Gen(r *simrt.Rand, idx int, tier string) any {
	c := PoolCase{NumWorkers: 1 + r.Intn(3), Mode: "normal"}
	c.SendDurNs = []int64{1000, 1_000_000, 10_000_000}[r.Intn(3)]
	c.Sched = genSched(r, 400)
	if m := r.Intn(30); m < 7 {
		// lifecycle calls in arbitrary order. seqlife: one goroutine issues Run/Stop in any order
		// (Stop first, double Run, double Stop, cycles) while senders, started after the first Run
		// returned, keep sending; liferace: lifecycle calls race with each other and with Sends.
		c.Mode = "seqlife"
		if m == 0 {
			c.Mode = "liferace"
		}
		ng := 2 + r.Intn(2)
		for g := 0; g < ng; g++ {
			var acts []PoolAct
			for k := 0; k < 2+r.Intn(4); k++ {
				life := c.Mode == "liferace" || g == 0
				switch {
				case life && r.Intn(2) == 0:
					acts = append(acts, PoolAct{Kind: "run"})
				case life:
					acts = append(acts, PoolAct{Kind: "stop"})
				default:
					acts = append(acts, PoolAct{Kind: "send", Job: "quick"})
				}
			}
			c.AnyOrder = append(c.AnyOrder, acts)
		}
		return c
	}
	nph := 1 + r.Intn(2)
	for p := 0; p < nph; p++ {
		var ph PoolPhase
		ns := 1 + r.Intn(4)
		gatedP := r.Intn(4) // 0: none gated
		for s := 0; s < ns; s++ {
			var acts []PoolAct
			for k := 0; k < 1+r.Intn(8); k++ {
				job := "quick"
				if gatedP > 0 && r.Intn(4) < gatedP {
					job = "gated"
					if r.Intn(3) == 0 {
						// a job that does not look at its context: it ends when it is done (the gate
						// opens once every Send of the phase has returned), cancelled or not
						job = "stubborn"
					}
				}
				acts = append(acts, PoolAct{Kind: "send", Job: job})
			}
			ph.Senders = append(ph.Senders, acts)
		}
		ph.StopDuring = r.Intn(6) == 0
		ph.CtxFirst = ph.StopDuring && r.Intn(2) == 0
		ph.StopAfter = p < nph-1 || r.Intn(2) == 0
		c.Phases = append(c.Phases, ph)
	}
	c.CtxPerRun = r.Intn(2) == 0
	return c
}

func (propC16) Decode(b json.RawMessage) (any, error) {
	var c PoolCase
	err := json.Unmarshal(b, &c)
	return c, err
}

func (propC16) Shrink(x any) []any {
	c := x.(PoolCase)
	var out []any
	clone := func() PoolCase {
		var d PoolCase
		b, _ := json.Marshal(c)
		json.Unmarshal(b, &d)
		return d
	}
	reseed := func(d PoolCase) {
		for k := 0; k < 4; k++ {
			e := d
			e.Sched.Seed = simrt.Mix(d.Sched.Seed + uint64(k))
			out = append(out, e)
		}
	}
	if c.Mode != "normal" {
		for g := range c.AnyOrder {
			if len(c.AnyOrder) > 1 {
				d := clone()
				d.AnyOrder = append(d.AnyOrder[:g], d.AnyOrder[g+1:]...)
				reseed(d)
			}
			for k := range c.AnyOrder[g] {
				d := clone()
				d.AnyOrder[g] = append(d.AnyOrder[g][:k], d.AnyOrder[g][k+1:]...)
				reseed(d)
			}
		}
		return out
	}
	if len(c.Phases) > 1 {
		for p := range c.Phases {
			d := clone()
			d.Phases = append(d.Phases[:p], d.Phases[p+1:]...)
			reseed(d)
		}
	}
	for p := range c.Phases {
		for s := range c.Phases[p].Senders {
			if len(c.Phases[p].Senders) > 1 {
				d := clone()
				d.Phases[p].Senders = append(d.Phases[p].Senders[:s], d.Phases[p].Senders[s+1:]...)
				reseed(d)
			}
			for k := range c.Phases[p].Senders[s] {
				if len(c.Phases[p].Senders[s]) > 1 {
					d := clone()
					d.Phases[p].Senders[s] = append(d.Phases[p].Senders[s][:k], d.Phases[p].Senders[s][k+1:]...)
					reseed(d)
				}
			}
		}
	}
	if c.NumWorkers > 1 {
		d := clone()
		d.NumWorkers--
		reseed(d)
	}
	return out
}

type poolJob struct {
	id        int
	kind      string
	phase     int
	sendCall  uint64
	sendRet   uint64
	starts    int
	ends      int
	startStep []uint64
	endStep   []uint64
	deferred  bool
}

type poolWorld struct {
	jobs     []*poolJob
	gate     chan struct{}
	stopCall []uint64
	stopRet  []uint64
	runRet   []uint64
	viol     *Violation
}

func (w *poolWorld) fail(class, sig, detail string) {
	if w.viol == nil {
		w.viol = &Violation{Class: class, Signature: "C16|" + class + "|" + sig, Detail: detail}
	}
}

func (propC16) Exec(x any, choices []int32) RunOut {
	c := x.(PoolCase)
	w := &poolWorld{}
	var (
		nontrivial       bool
		timerInSend      uint64
		oldCtxEnded      uint64
		runCtxEndedFirst uint64
	)
	res := simrt.Run(c.Sched.config(choices), func() {
		pool := wpool.New(wpool.Options{NumWorkers: c.NumWorkers, SendDuration: time.Duration(c.SendDurNs)})
		ctx := context.Background()
		if c.Mode != "normal" {
			var wg simrt.WaitGroup
			active := 0
			if c.Mode == "seqlife" {
				pool.Run(ctx) // senders only exist once a Run has returned
			}
			for g, acts := range c.AnyOrder {
				wg.Add(1)
				acts := acts
				simrt.GoNamed(fmt.Sprintf("actor%d", g), 0, func() {
					defer wg.Done()
					for _, a := range acts {
						active++
						if active > 1 {
							nontrivial = true
						}
						switch a.Kind {
						case "run":
							pool.Run(ctx)
						case "stop":
							pool.Stop()
						case "send":
							j := &poolJob{id: len(w.jobs), kind: "quick"}
							w.jobs = append(w.jobs, j)
							pool.Send(ctx, wpool.Event{Caller: "anyorder", Fn: func(context.Context) error { j.starts++; j.ends++; return nil }})
						}
						active--
					}
				})
			}
			wg.Wait()
			// wind down: whatever state the pool is in, one Run/Stop pair must leave it stopped
			pool.Run(ctx)
			pool.Stop()
			for _, j := range w.jobs {
				if j.starts > 1 {
					w.fail("job-executed-twice", c.Mode, fmt.Sprintf("job %d executed %d times", j.id, j.starts))
				}
			}
			return
		}

		var cancels []func()
		run := func() {
			rctx := ctx
			if c.CtxPerRun {
				var cancel func()
				rctx, cancel = sctx.WithCancel(ctx)
				cancels = append(cancels, cancel)
			}
			pool.Run(rctx)
			w.runRet = append(w.runRet, simrt.Step())
		}
		defer func() {
			for _, cancel := range cancels {
				cancel()
			}
		}()
		run()
		running := true
		for pi, ph := range c.Phases {
			if !running {
				run()
				running = true
			}
			w.gate = make(chan struct{})
			gate := w.gate
			var wg, stopWg simrt.WaitGroup
			if len(cancels) > 1 {
				// the context an earlier life was run with ends now: that life is over (its Stop has
				// returned), the pool of this life must not care
				old := cancels[:len(cancels)-1]
				stopWg.Add(1)
				simrt.GoNamed(fmt.Sprintf("oldctx%d", pi), 0, func() {
					defer stopWg.Done()
					for _, cancel := range old {
						cancel()
					}
					oldCtxEnded++
				})
			}
			first := len(w.jobs)
			tf0 := simrt.TimerFires()
			inSend := 0
			for s, acts := range ph.Senders {
				wg.Add(1)
				acts := acts
				simrt.GoNamed(fmt.Sprintf("sender%d.%d", pi, s), 0, func() {
					defer wg.Done()
					for _, a := range acts {
						j := &poolJob{id: len(w.jobs), kind: a.Job, phase: pi}
						w.jobs = append(w.jobs, j)
						j.sendCall = simrt.Step()
						inSend++
						pool.Send(ctx, wpool.Event{Caller: "c16", Fn: func(jctx context.Context) error {
							j.starts++
							j.startStep = append(j.startStep, simrt.Step())
							if j.kind == "gated" {
								simrt.Select([]simrt.SelCase{simrt.CaseRecv(gate), simrt.CaseRecv(jctx.Done())}, false)
							}
							if j.kind == "stubborn" {
								simrt.Select([]simrt.SelCase{simrt.CaseRecv(gate)}, false)
							}
							j.ends++
							j.endStep = append(j.endStep, simrt.Step())
							return nil
						}})
						inSend--
						j.sendRet = simrt.Step()
					}
				})
			}
			stopped := false
			if ph.StopDuring {
				stopWg.Add(1)
				simrt.GoNamed(fmt.Sprintf("stopper%d", pi), 0, func() {
					defer stopWg.Done()
					busy := inSend > 0
					for _, j := range w.jobs[first:] {
						if j.starts > j.ends {
							busy = true
						}
					}
					if busy {
						nontrivial = true
					}
					if ph.CtxFirst && len(cancels) > 0 {
						cancels[len(cancels)-1]()
						runCtxEndedFirst++
					}
					w.stopCall = append(w.stopCall, simrt.Step())
					pool.Stop()
					w.stopRet = append(w.stopRet, simrt.Step())
					w.checkStop(first)
				})
				stopped = true
			}
			// the gate opens once every Send of the phase has returned - not before: a Send must never
			// need a job (or a Stop that waits for one) to finish
			wg.Wait()
			timerInSend += simrt.TimerFires() - tf0
			simrt.Close(gate)
			stopWg.Wait()
			// quiescence without any further Send: let every timer that is pending fire, nothing else
			for k := 0; k < 50; k++ {
				simrt.Quiesce()
				if simrt.PendingTimers() == 0 {
					break
				}
				simrt.AdvanceTime(int64(time.Hour))
			}
			simrt.Quiesce()
			for _, j := range w.jobs[first:] {
				if j.starts > 1 {
					w.fail("job-executed-twice", j.kind, fmt.Sprintf("job %d (%s) executed %d times", j.id, j.kind, j.starts))
				}
				if !stopped && j.starts == 0 {
					w.fail("job-not-executed", "quiescent-pool", fmt.Sprintf("job %d (%s, phase %d): Send returned at step %d while the pool was running, the pool is quiescent (all gates open, all timers fired, no further Send) and the job never ran", j.id, j.kind, j.phase, j.sendRet))
				}
				if !stopped && j.starts != j.ends {
					w.fail("job-not-finished", j.kind, fmt.Sprintf("job %d started %d ended %d", j.id, j.starts, j.ends))
				}
			}
			if stopped {
				running = false
			} else if ph.StopAfter {
				w.stopCall = append(w.stopCall, simrt.Step())
				pool.Stop()
				w.stopRet = append(w.stopRet, simrt.Step())
				w.checkStop(first)
				running = false
			}
			if w.viol != nil {
				break
			}
		}
		if running {
			w.stopCall = append(w.stopCall, simrt.Step())
			pool.Stop()
			w.stopRet = append(w.stopRet, simrt.Step())
		}
		// no job starts after Stop has returned: a job handed to Send before a Stop was invoked
		// must not start after that Stop returned (not even in a later Run)
		for _, j := range w.jobs {
			for _, st := range j.startStep {
				for k := range w.stopRet {
					if k < len(w.stopCall) && j.sendCall < w.stopCall[k] && st > w.stopRet[k] {
						w.fail("job-after-stop", j.kind, fmt.Sprintf("job %d (%s, phase %d) was handed to Send at step %d, before Stop was invoked at step %d; it started at step %d, after that Stop had returned at step %d", j.id, j.kind, j.phase, j.sendCall, w.stopCall[k], st, w.stopRet[k]))
					}
				}
			}
		}
	})
	if timerInSend > 0 {
		nontrivial = true
	}
	out := RunOut{Steps: res.Steps, Switches: res.Switches, TimerFires: res.TimerFires, SimNs: res.SimTimeNs,
		TraceHash: res.TraceHash, SwitchHash: res.SwitchHash, Choices: res.Choices, Log: res.Log, NonTrivial: nontrivial}
	b, _ := json.Marshal(c)
	h := fnv.New64a()
	h.Write(b)
	out.CaseHash = h.Sum64() ^ res.SwitchHash
	out.Sample, _ = json.Marshal(map[string]any{"case": c, "steps": res.Steps, "switches": res.Switches, "jobs": len(w.jobs)})
	out.Probes = map[string]uint64{}
	if runCtxEndedFirst > 0 {
		out.Probes["run-context-ended-before-stop-was-called"] = runCtxEndedFirst
	}
	if oldCtxEnded > 0 {
		out.Probes["context-of-an-earlier-life-ended-during-a-later-one"] = oldCtxEnded
	}
	if timerInSend > 0 {
		out.Probes["send-timeout-fired"] = timerInSend
	}
	if c.Mode != "normal" {
		out.Probes[c.Mode+"-runs"] = 1
	}
	finishStatus(&out, res, "C16", w.viol, c.Mode)
	return out
}

// checkStop: Stop returned only after every started job finished.
func (w *poolWorld) checkStop(first int) {
	for _, j := range w.jobs {
		if j.starts > j.ends {
			w.fail("stop-before-job-end", j.kind, fmt.Sprintf("Stop returned at step %d while job %d (%s) was still running", simrt.Step(), j.id, j.kind))
		}
	}
}

// finishStatus folds the simulator's own verdict (deadlock, panic, misuse, ...) into the run
// outcome. Abnormal ends poison the process (MustExit).
func finishStatus(out *RunOut, res simrt.Result, prop string, v *Violation, ctxTag string) {
	switch res.Status {
	case simrt.StatusOK:
	case simrt.StatusStepLimit:
		out.Inconclusive = "steplimit"
		out.MustExit = true
	case simrt.StatusDiverged:
		out.Infra = "replay diverged: " + res.Detail
		out.MustExit = true
	case simrt.StatusUnsupported:
		out.Infra = res.Detail
		out.MustExit = true
	case simrt.StatusDeadlock:
		sites := siteSig(res.Sites)
		v = &Violation{Class: "deadlock", Signature: prop + "|deadlock|" + sites, Detail: res.Detail}
		out.MustExit = true
	case simrt.StatusPanic:
		v = &Violation{Class: "panic", Signature: prop + "|panic|" + siteSig(res.Sites) + "|" + panicKind(res.Detail), Detail: res.Detail}
		out.MustExit = true
	case simrt.StatusMisuse:
		v = &Violation{Class: "panic", Signature: prop + "|fatal|" + siteSig(res.Sites) + "|" + res.Detail, Detail: "runtime-fatal misuse: " + res.Detail}
		out.MustExit = true
	}
	if v != nil {
		out.Violation = v
		if res.Leaked != 0 {
			out.MustExit = true
		}
	}
	if res.Leaked != 0 {
		out.MustExit = true
	}
}

func siteSig(sites []string) string {
	s := append([]string(nil), sites...)
	sort.Strings(s)
	// collapse duplicates (n workers blocked at the same site)
	var u []string
	for _, x := range s {
		if len(u) == 0 || u[len(u)-1] != x {
			u = append(u, x)
		}
	}
	return strings.Join(u, ",")
}

func panicKind(detail string) string {
	l := firstLine(detail)
	if i := strings.Index(l, "): "); i >= 0 {
		l = l[i+3:]
	}
	// strip addresses
	if i := strings.Index(l, "0x"); i >= 0 {
		l = l[:i]
	}
	return strings.TrimSpace(l)
}

var _ = sctx.Background
