package harness

import (
	"context"
	"encoding/json"
	"errors"
	"fmt"
	"hash/fnv"
	"io"
	"strings"

	"google.golang.org/grpc/metadata"

	"github.com/glebziz/fs_db"
	adaptererrors "github.com/glebziz/fs_db/internal/adapter/errors"
	"github.com/glebziz/fs_db/internal/model"
	store "github.com/glebziz/fs_db/internal/proto"
	"github.com/glebziz/fs_db/internal/utils/grpc/interceptors/server"
	"github.com/glebziz/fs_db/internal/verif/simrt"
)

// C13, "operations naming an unknown transaction behave the same way": through the public gRPC
// protocol a request may name a transaction id the server does not know (a handle that outlived a
// server restart, a foreign client). Issued over the simulated transport with the generated stub.

type UnknownTxCase struct {
	Sched SchedSpec `json:"sched"`
	World WorldSpec `json:"world"`
	Ops   []string  `json:"ops"` // get keys commit rollback del set
	TxID  string    `json:"txid"`
	// OnlyEnd: issue Commit/Rollback only (with no id, or the main id, every other request is a
	// legitimate autocommit request)
	OnlyEnd bool `json:"only_end,omitempty"`
}

type propC13 struct{ seqProp }

func init() {
	base := registry["C13"].(seqProp)
	Register(propC13{base})
}

func (p propC13) Gen(r *simrt.Rand, idx int, tier string) any {
	if idx%25 == 12 {
		c := genC13Conc(r)
		return C13Case{Conc: &c}
	}
	if idx%25 == 24 {
		c := UnknownTxCase{World: genWorldSpec(r), TxID: fmt.Sprintf("%08x-0000-4000-8000-%012x", r.Uint64()&0xffffffff, r.Uint64()&0xffffffffffff)}
		switch r.Intn(8) {
		case 0:
			// not every client names its transactions the way this server does: ids that are not
			// (canonical) UUIDs are unknown transactions like any other
			c.TxID = fmt.Sprintf("tx-%06d", r.Intn(1000000))
		case 1:
			c.TxID = fmt.Sprintf("%d", r.Intn(100000))
		case 2:
			c.TxID = c.TxID[:len(c.TxID)-1-r.Intn(10)]
		case 3:
			c.TxID = strings.ToUpper(c.TxID)
		case 4:
			c.TxID = "{" + c.TxID + "}"
		case 5:
			c.TxID = c.TxID + "x"
		}
		if idx%50 == 49 {
			// a Commit or Rollback that names no transaction at all, or the id the server uses for
			// "no transaction": there is nothing to end - Commit is refused, Rollback is a no-op, and
			// the committed state stays what it is
			c.TxID = []string{"", model.MainTxId}[r.Intn(2)]
			c.OnlyEnd = true
		}
		c.Sched = SchedSpec{Seed: r.Uint64(), Strategy: "seqbg", MaxSteps: 2_000_000}
		all := []string{"get", "keys", "commit", "rollback", "del", "set"}
		for _, i := range r.Perm(len(all)) {
			if c.OnlyEnd && all[i] != "commit" && all[i] != "rollback" {
				continue
			}
			c.Ops = append(c.Ops, all[i])
		}
		return C13Case{Unknown: &c}
	}
	c := p.seqProp.gen(r, idx, tier)
	if idx%4 == 1 && simGrpcAvailable() {
		c.Client = "simgrpc" // the same late-call histories through the external client
		for i := range c.Ops {
			if c.Ops[i].K == "reopen" {
				c.Ops[i] = Op{K: "drain"}
			}
		}
	}
	return C13Case{Seq: &c}
}

type C13Case struct {
	Seq     *SeqCase       `json:"seq,omitempty"`
	Unknown *UnknownTxCase `json:"unknown,omitempty"`
	Conc    *ConcCase      `json:"conc,omitempty"`
}

// genC13Conc: one client ends a transaction (Commit or Rollback) while another is still using the
// same handle (reads, a write); what those overlapping calls answer is not judged here. Judged is
// what comes AFTER both have returned: every further call through the handle (the Tail, issued by
// the main client at quiescence) fails with ErrTxNotFound (Rollback: nil) and leaves no trace.
func genC13Conc(r *simrt.Rand) ConcCase {
	c := ConcCase{Prop: "C13", Final: true}
	c.World = genConcWorld(r)
	c.Keys = genKeys(r, 2, 3)
	hot := c.Keys[0]
	id := uint64(0)
	for _, k := range c.Keys {
		id++
		c.Init = append(c.Init, Op{K: "set", Key: k, ID: id, Size: 9 + r.Intn(40)})
	}
	id++
	c.Init = append(c.Init, Op{K: "begin", Tx: 1, Level: r.Intn(4)}, Op{K: "set", Tx: 1, Key: hot, ID: id, Size: 9 + r.Intn(40)},
		Op{K: "begin", Tx: 2, Level: 0}) // tx 2: a ReadUncommitted observer
	end := []string{"commit", "rollback"}[r.Intn(2)]
	c.Clients = append(c.Clients, []Op{{K: "yield", N: r.Intn(10)}, {K: end, Tx: 1}})
	var u []Op
	for k := 0; k < 2+r.Intn(4); k++ {
		switch r.Intn(4) {
		case 0:
			u = append(u, Op{K: "get", Tx: 1, Key: hot})
		case 1:
			u = append(u, Op{K: "keys", Tx: 1})
		case 2:
			id++
			u = append(u, Op{K: "set", Tx: 1, Key: c.Keys[r.Intn(len(c.Keys))], ID: id, Size: 9 + r.Intn(40)})
		default:
			u = append(u, Op{K: "yield", N: r.Intn(12)})
		}
	}
	c.Clients = append(c.Clients, u)
	if r.Intn(2) == 0 {
		c.Clients = append(c.Clients, []Op{{K: "get", Tx: 1, Key: hot}, {K: "yield", N: r.Intn(10)}, {K: "get", Tx: 1, Key: hot}})
	}
	// late calls, at quiescence
	id++
	late := id
	c.Tail = []Op{{K: "get", Tx: 1, Key: hot}, {K: "keys", Tx: 1}, {K: "set", Tx: 1, Key: c.Keys[len(c.Keys)-1], ID: late, Size: 9 + r.Intn(40)},
		{K: "del", Tx: 1, Key: hot}, {K: "commit", Tx: 1}, {K: "rollback", Tx: 1},
		{K: "get", Tx: 2, Key: c.Keys[len(c.Keys)-1]}, {K: "get", Tx: 2, Key: hot}, {K: "keys", Tx: 2}, {K: "get", Key: hot}}
	for i, j := range r.Perm(6) {
		c.Tail[i], c.Tail[j] = c.Tail[j], c.Tail[i]
	}
	c.Sched = genSched(r, 200)
	c.Sched.MaxSteps = 600_000
	return c
}

// checkC13Conc judges the late calls of genC13Conc.
func checkC13Conc(c ConcCase, cr *concRun) *Violation {
	last := lastClientRet(cr)
	lateIDs := map[uint64]bool{}
	hotDeleted := false
	for _, o := range c.Tail {
		if o.Tx == 1 && o.ID != 0 {
			lateIDs[o.ID] = true
		}
	}
	for _, e := range cr.hist {
		if e.Client != 0 || e.Call <= last {
			continue
		}
		if e.Op.Tx == 1 {
			want := "ErrTxNotFound"
			if e.Op.K == "rollback" {
				want = ""
			}
			if e.Class != want {
				return &Violation{Class: "error-class", Signature: "C13|late-call-after-concurrent-end|" + e.Op.K,
					Detail: fmt.Sprintf("a transaction was ended by one client while another was using the same handle; at quiescence %s through that handle returned class %q (%s), want %q", e.Op, e.Class, e.Err, want)}
			}
			continue
		}
		// observers (ReadUncommitted transaction 2, autocommit): no trace of the late writes
		if (e.Op.K == "get" || e.Op.K == "getr") && e.Class == "" && lateIDs[e.ValID] {
			return &Violation{Class: "value", Signature: "C13|late-write-visible-after-concurrent-end",
				Detail: fmt.Sprintf("%s returned write #%d, which was made through the handle after the transaction had ended", e.Op, e.ValID)}
		}
		_ = hotDeleted
	}
	return nil
}

func (p propC13) Decode(b json.RawMessage) (any, error) {
	var c C13Case
	err := json.Unmarshal(b, &c)
	return c, err
}

func (p propC13) Shrink(x any) []any {
	c := x.(C13Case)
	if c.Conc != nil {
		var out []any
		for _, d := range concShrink(*c.Conc) {
			d := d
			out = append(out, C13Case{Conc: &d})
		}
		return out
	}
	if c.Seq == nil {
		return nil
	}
	var out []any
	for _, s := range p.seqProp.Shrink(*c.Seq) {
		sc := s.(SeqCase)
		out = append(out, C13Case{Seq: &sc})
	}
	return out
}

func (p propC13) Exec(x any, choices []int32) RunOut {
	c := x.(C13Case)
	if c.Seq != nil {
		return seqExec(*c.Seq, choices)
	}
	if c.Conc != nil {
		out, cr := concExec(*c.Conc, choices)
		if out.Violation != nil || out.Infra != "" || out.Inconclusive != "" {
			return out
		}
		out.NonTrivial = cr.overlaps() > 0
		out.Probes["late-calls-after-concurrent-end"]++
		if v := checkC13Conc(*c.Conc, cr); v != nil {
			v.Detail += "\nhistory (event numbers):\n" + cr.histText(60)
			out.Violation = v
		}
		return out
	}
	return unknownTxExec(*c.Unknown, choices)
}

func unknownTxExec(c UnknownTxCase, choices []int32) RunOut {
	var (
		viol  *Violation
		infra string
		w     *World
	)
	fail := func(op, detail string) {
		if viol == nil {
			viol = &Violation{Class: "error-class", Signature: "C13|unknown-tx|" + op, Detail: detail}
		}
	}
	cfg := c.Sched.config(choices)
	cfg.Strategy = "seqbg"
	res := simrt.Run(cfg, func() {
		var err error
		w, err = NewWorld(c.World, c.Sched.Seed)
		if err != nil {
			infra = err.Error()
			return
		}
		if err := w.Open(); err != nil {
			infra = err.Error()
			return
		}
		defer w.Close()
		l := newGrpcLink()
		store.RegisterStoreV1Server(l, w.C.StoreService())
		raw := store.NewStoreV1Client(l)
		ctx := metadata.AppendToOutgoingContext(w.Ctx, server.TxIdKey, c.TxID)
		if c.TxID == "" {
			ctx = w.Ctx // no transaction id metadata at all
		}
		if err := w.DB.Set(w.Ctx, "k", payload(1, 20)); err != nil {
			infra = err.Error()
			return
		}
		observer, err := w.DB.Begin(w.Ctx, fs_db.IsoLevelReadUncommitted)
		if err != nil {
			infra = err.Error()
			return
		}
		defer observer.Rollback(w.Ctx)
		for _, op := range c.Ops {
			var err error
			want := "ErrTxNotFound"
			switch op {
			case "get":
				st, e := raw.GetFile(ctx, &store.GetFileRequest{Key: "k"})
				if e == nil {
					_, e = st.Recv()
				}
				err = e
			case "keys":
				_, err = raw.GetKeys(ctx, &store.GetKeysRequest{})
			case "commit":
				_, err = raw.CommitTx(ctx, &store.CommitTxRequest{})
			case "rollback":
				_, err = raw.RollbackTx(ctx, &store.RollbackTxRequest{})
				want = ""
			case "del":
				_, err = raw.DeleteFile(ctx, &store.DeleteFileRequest{Key: "k"})
			case "set":
				st, e := raw.SetFile(ctx)
				if e == nil {
					e = st.Send(&store.SetFileRequest{Data: &store.SetFileRequest_Header{Header: &store.FileHeader{Key: "k"}}})
				}
				if e == nil {
					e = st.Send(&store.SetFileRequest{Data: &store.SetFileRequest_Chunk{Chunk: payload(2, 30)}})
				}
				if e == nil || errors.Is(e, io.EOF) {
					// Send reports io.EOF once the server has ended the call; the verdict is
					// what CloseAndRecv returns (grpc-go's contract for client streams)
					_, e = st.CloseAndRecv()
				}
				err = e
			}
			got := ""
			if err != nil {
				got = classOf(adaptererrors.ClientError(err))
			}
			if got != want {
				fail(op, fmt.Sprintf("%s naming the unknown transaction %s returned class %q (%v), want %q", op, c.TxID, got, err, want))
				break
			}
			b, gerr := observer.Get(w.Ctx, "k")
			if gerr != nil || string(b) != string(payload(1, 20)) {
				fail(op+"-visible", fmt.Sprintf("after %s naming an unknown transaction a ReadUncommitted observer no longer reads the committed value: %d bytes, err %v", op, len(b), gerr))
				break
			}
		}
	})
	if w != nil {
		w.Destroy()
	}
	out := RunOut{Steps: res.Steps, Switches: res.Switches, TraceHash: res.TraceHash, SwitchHash: res.SwitchHash, Choices: res.Choices, Log: res.Log,
		NonTrivial: true, Probes: map[string]uint64{"unknown-tx-cases": 1}}
	b, _ := json.Marshal(c)
	h := fnv.New64a()
	h.Write(b)
	out.CaseHash = h.Sum64()
	out.Sample = b
	if infra != "" {
		out.Infra = infra
		out.MustExit = true
		return out
	}
	finishStatus(&out, res, "C13", viol, "unknown")
	return out
}

var _ = context.Background
