// Package simdisk replaces gopsutil's disk package inside fs_db's disk seam
// (internal/utils/disk): free space is what the simulated disk says.
package simdisk

import (
	"context"
	"os"
	"syscall"

	gdisk "github.com/shirou/gopsutil/disk"

	"github.com/glebziz/fs_db/internal/verif/simos"
	"github.com/glebziz/fs_db/internal/verif/simrt"
)

type UsageStat = gdisk.UsageStat

// unlimited is what a root without a configured capacity reports (a constant, so runs replay).
const unlimited = uint64(1) << 40

//go:norace
func Usage(path string) (*UsageStat, error) { return UsageWithContext(context.Background(), path) }

//go:norace
func UsageWithContext(_ context.Context, path string) (*UsageStat, error) {
	simrt.Yield("disk.Usage")
	if _, err := os.Stat(path); err != nil {
		if os.IsNotExist(err) {
			return nil, syscall.ENOENT
		}
		return nil, err
	}
	free, total, ok := simos.Free(path)
	if !ok {
		free, total = unlimited, unlimited
	}
	return &UsageStat{Path: path, Total: total, Free: free, Used: total - free}, nil
}
