// Package simrand replaces math/rand/v2 in fs_db's DI container: the seed of the shared
// *rand.Rand comes from the run's PRNG instead of the process-global source.
package simrand

import (
	"math/rand/v2"

	"github.com/glebziz/fs_db/internal/verif/simrt"
)

type (
	Rand   = rand.Rand
	Source = rand.Source
	PCG    = rand.PCG
)

func New(src Source) *Rand          { return rand.New(src) }
func NewPCG(s1, s2 uint64) *PCG     { return rand.NewPCG(s1, s2) }
func Uint64() uint64                { return simrt.IDRand().Uint64() }
func Uint32() uint32                { return uint32(simrt.IDRand().Uint64()) }
func Int() int                      { return int(simrt.IDRand().Uint64() >> 1) }
func IntN(n int) int                { return simrt.IDRand().Intn(n) }
func Float64() float64              { return simrt.IDRand().Float64() }
func Perm(n int) []int              { return simrt.IDRand().Perm(n) }
func Shuffle(n int, swap func(i, j int)) {
	p := simrt.IDRand()
	for i := n - 1; i > 0; i-- {
		swap(i, p.Intn(i+1))
	}
}
