#!/usr/bin/env python3
# keep_seeded.py <src-id> <new-id> <json-with-fields> : install /tmp/wt/<src-id>.out as /verif/seeded/<new-id>/
import json,sys,os,shutil,glob,subprocess
src,new,fields=sys.argv[1],sys.argv[2],json.loads(sys.argv[3])
out=os.environ.get('WT','/tmp/wt')+'/%s.out'%src; d='/verif/seeded/%s'%new
os.makedirs(d,exist_ok=True)
shutil.copy(out+'/patch.diff',d+'/patch.diff')
if os.path.exists(out+'/DEMO.md'): shutil.copy(out+'/DEMO.md',d+'/DEMO.md')
for f in glob.glob(out+'/*_test.go'):
    shutil.copy(f,d+'/'+os.path.basename(f)+'.txt')
files=[l.split()[-1][2:] for l in open(out+'/patch.diff') if l.startswith('+++ b/')]
head=subprocess.check_output(['git','-C','/repo','rev-parse','--short','HEAD']).decode().strip()
race=' -race' if fields.get('race') else ''
meta={
 "property": new.split('-')[0],
 "origin": fields.get('origin',"written by an independent sub-agent that saw only the property text and a scratch worktree (seventh wave: the files of the earlier seeded changes for this property were off limits)"),
 "base_commit": fields.get('base','f7cd9b4'),
 "confirmed_on": head,
 "summary": fields['summary'],
 "needs": fields['needs'],
 "files": files,
 "demo_cmd": "git -C /repo worktree add --detach /tmp/ev/wt HEAD && cd /tmp/ev/wt && git apply /verif/seeded/%s/patch.diff && mkdir -p internal/demo && for f in /verif/seeded/%s/*_test.go.txt; do cp $f internal/demo/$(basename $f .txt); done && GOFLAGS=-mod=mod GOPROXY=off GOSUMDB=off GOTOOLCHAIN=local go test -mod=mod -vet=off -count=1%s ./internal/demo/"%(new,new,race),
 "confirmed": {"how":"tools/verify_wave.sh in a fresh scratch worktree of /repo HEAD: git apply patch.diff; go test ./... shows no new failure; demo fails with the change and passes after git apply -R","unit_tests_pass_with_change":True,"demo_fails_with_change":True,"demo_passes_without_change":True},
 "checks_run": "tools/trywave.sh <patch.diff> <property checks> (quick tier, default VERIF_SEED, against a scratch copy of /repo HEAD with the change applied)",
 "caught_by": fields['caught_by'],
}
if fields.get('missed'): meta['missed_initially_by']=fields['missed']
json.dump(meta,open(d+'/meta.json','w'),indent=1)
print(new,files)
