// Fixture writer: built and run inside a checkout of the *pinned* revision of fs_db (see
// tools/mkfixture.sh). It writes a database directory through the public API only and a dump of
// what was acknowledged, so that later revisions can be asked to open data written by this one.
package main

import (
	"context"
	"encoding/base64"
	"encoding/json"
	"fmt"
	"os"
	"path/filepath"
	"strings"
	"time"

	"github.com/glebziz/fs_db"
	"github.com/glebziz/fs_db/config"
	"github.com/glebziz/fs_db/pkg/inline"
)

// payload must stay identical to harness.payload for the ids and sizes this program writes
// (splitmix64 stream seeded by the write id; the harness additionally zeroes a run of bytes for ids
// with id%11 == 8 and more than 16 bytes - no id written here is one of them).
func payload(id uint64, n int) []byte {
	b := make([]byte, n)
	s := id ^ 0x9E3779B97F4A7C15
	next := func() uint64 {
		s += 0x9E3779B97F4A7C15
		z := s
		z = (z ^ (z >> 30)) * 0xBF58476D1CE4E5B9
		z = (z ^ (z >> 27)) * 0x94D049BB133111EB
		return z ^ (z >> 31)
	}
	for i := 0; i < n; {
		v := next()
		for k := 0; k < 8 && i < n; k++ {
			b[i] = byte(v)
			v >>= 8
			i++
		}
	}
	return b
}

type ack struct {
	Key     string `json:"-"`
	KeyB64  string `json:"key_b64"` // keys are arbitrary bytes: JSON strings would mangle them
	ID      uint64 `json:"id"`   // 0 = deleted
	Size    int    `json:"size"`
}

func must(err error) {
	if err != nil {
		fmt.Fprintln(os.Stderr, "fixture:", err)
		os.Exit(1)
	}
}

func main() {
	out := os.Args[1]
	os.RemoveAll(out)
	must(os.MkdirAll(out, 0o755))
	// fs_db persists the directory of every content as it was configured: relative roots (and
	// a reader that runs with the same working directory) keep the fixture relocatable
	must(os.Chdir(out))
	cfg := config.Config{
		Storage: config.Storage{DbPath: "db", MaxDirCount: 100, RootDirs: []string{"root0", "root1"}, GCPeriod: time.Hour},
		WPool:   config.WPool{NumWorkers: 2, SendDuration: time.Millisecond},
	}
	ctx := context.Background()
	db, err := inline.Open(ctx, cfg)
	must(err)
	var acks []ack
	id := uint64(0)
	set := func(s fs_db.Store, key string, size int, record bool) {
		id++
		must(s.Set(ctx, key, payload(id, size)))
		if record {
			acks = append(acks, ack{Key: key, ID: id, Size: size})
		}
	}
	keys := []string{"a", "b", "key-ü-ключ-鍵", "dir/with/slash", strings.Repeat("long", 80), "sp ace", string([]byte{0x01, 0x02, 0xff, 0xfe}), "deleted-later", "tx-key-1", "tx-key-2"}
	sizes := []int{9, 100, 2047, 2048, 2049, 32768, 70000, 11, 12, 13}
	for i, k := range keys {
		set(db, k, sizes[i], true)
	}
	// overwrites: superseded versions that the collector has not removed (GC period: one hour)
	set(db, "a", 33, true)
	set(db, "a", 34, true)
	set(db, "b", 4097, true)
	// many versions of one key: sequence numbers that need more than one byte (an order-preserving
	// misreading of single-byte numbers would go unnoticed otherwise); the versions straddle 256 and 512
	for i := 0; i < 600; i++ {
		id++
		must(db.Set(ctx, "hot", payload(id, 10+i%7)))
	}
	acks = append(acks, ack{Key: "hot", ID: id, Size: 10 + 599%7})
	set(db, "sp ace", 77, true)
	// a tombstone
	must(db.Delete(ctx, "deleted-later"))
	acks = append(acks, ack{Key: "deleted-later"})
	// a delete of the empty key (the inline client accepts it): a record with an empty key
	must(db.Delete(ctx, ""))
	// a committed transaction (several keys, one written twice)
	tx, err := db.Begin(ctx, fs_db.IsoLevelSerializable)
	must(err)
	set(tx, "tx-key-1", 50, false)
	set(tx, "tx-key-1", 51, false)
	last1 := id
	set(tx, "tx-key-2", 52, false)
	last2 := id
	must(tx.Commit(ctx))
	acks = append(acks, ack{Key: "tx-key-1", ID: last1, Size: 51}, ack{Key: "tx-key-2", ID: last2, Size: 52})
	// a transaction that is never committed: its versions stay in the store
	tx2, err := db.Begin(ctx)
	must(err)
	set(tx2, "a", 60, false)
	set(tx2, "never-committed", 61, false)
	// a rolled-back one
	tx3, err := db.Begin(ctx, fs_db.IsoLevelRepeatableRead)
	must(err)
	set(tx3, "b", 62, false)
	must(tx3.Rollback(ctx))
	must(db.Close())
	for i := range acks {
		acks[i].KeyB64 = base64.StdEncoding.EncodeToString([]byte(acks[i].Key))
	}
	b, _ := json.MarshalIndent(map[string]any{"revision": os.Getenv("FIXTURE_REVISION"), "acks": acks, "next_id": id + 1}, "", " ")
	must(os.WriteFile("ack.json", b, 0o644))
	_ = filepath.Join
}
