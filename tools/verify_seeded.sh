#!/bin/bash
# verify.sh <ID> <demo-dest-dir> <go test args...> : confirm a seeded change in a scratch worktree
export GOFLAGS=-mod=mod GOPROXY=off GOSUMDB=off GOTOOLCHAIN=local
ID=$1; DEST=$2; shift 2
W=/tmp/ev/wt
[ -d $W ] || git -C /repo worktree add -q --detach $W HEAD
cd $W && git checkout -q --detach $(git -C /repo rev-parse HEAD) && git reset -q --hard && git clean -fdq
git apply /tmp/ev/$ID.patch.diff || { echo "$ID: patch does not apply"; exit 1; }
T=$(go test -mod=mod -vet=off -count=1 ./internal/... . ./pkg/inline/... ./pkg/external/... 2>&1 | grep -E "^(FAIL|---|panic)" | grep -v "^FAIL$" | grep -v "streamwriter\|repository/content\b\|repository/content \|\[build failed\]" | head -5)
if [ -z "$T" ]; then echo "$ID: unit tests pass with the change"; else echo "$ID: UNIT TESTS: $T"; fi
mkdir -p $DEST && cp /tmp/wt/$ID.out/*.go $DEST/
if timeout 300 go test -mod=mod -vet=off -count=1 "$@" >/tmp/ev/$ID.with.log 2>&1; then echo "$ID: demo PASSES with the change (bad)"; else echo "$ID: demo fails with the change (good): $(grep -m1 -E 'Error:|--- FAIL|panic|lost|expected|got' /tmp/ev/$ID.with.log | cut -c1-160)"; fi
git checkout -q -- . 
if timeout 300 go test -mod=mod -vet=off -count=1 "$@" >/tmp/ev/$ID.without.log 2>&1; then echo "$ID: demo passes without the change (good)"; else echo "$ID: demo FAILS without the change (bad): $(tail -3 /tmp/ev/$ID.without.log | cut -c1-200)"; fi
git reset -q --hard; git clean -fdq
