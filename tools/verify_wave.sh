#!/bin/bash
# verify_wave.sh <ID> [go test flags...] : confirm a sub-agent's seeded change (/tmp/wt/<ID>.out/{patch.diff,*_test.go})
# in a fresh scratch worktree of /repo HEAD: unit tests pass with it, demo fails with it, demo passes without it.
export GOFLAGS=-mod=mod GOPROXY=off GOSUMDB=off GOTOOLCHAIN=local
ID=$1; shift
OUT=${WT:-/tmp/wt}/$ID.out
W=/tmp/ev/wt-$ID
rm -rf $W; git -C /repo worktree prune
git -C /repo worktree add -q --detach $W HEAD || exit 2
trap 'cd /; git -C /repo worktree remove --force $W' EXIT
cd $W
git apply $OUT/patch.diff || { echo "$ID: patch does not apply"; exit 1; }
echo "$ID: files: $(git diff --stat | tail -1)"
T=$(go test -mod=mod -vet=off -count=1 ./... 2>&1 | grep -E "^(FAIL|---|panic)" | grep -v "^FAIL$" | grep -v "streamwriter\|repository/content\b\|repository/content \|pkg/test\|\[build failed\]" | head -5)
if [ -z "$T" ]; then echo "$ID: unit tests pass with the change"; else echo "$ID: UNIT TESTS: $T"; fi
mkdir -p internal/demo_$ID && cp $OUT/*_test.go internal/demo_$ID/
if timeout 400 go test -mod=mod -vet=off -count=1 "$@" ./internal/demo_$ID/ >/tmp/ev/$ID.with.log 2>&1; then echo "$ID: demo PASSES with the change (bad)"; else echo "$ID: demo fails with the change (good): $(grep -m1 -E 'Error:|--- FAIL|panic|DATA RACE|lost|expected|got' /tmp/ev/$ID.with.log | cut -c1-160)"; fi
git apply -R $OUT/patch.diff
if timeout 400 go test -mod=mod -vet=off -count=1 "$@" ./internal/demo_$ID/ >/tmp/ev/$ID.without.log 2>&1; then echo "$ID: demo passes without the change (good)"; else echo "$ID: demo FAILS without the change (bad): $(tail -3 /tmp/ev/$ID.without.log | cut -c1-200)"; fi
