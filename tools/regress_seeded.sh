#!/bin/bash
# regress_seeded.sh [<seeded-dir-name>...] : re-run, for every kept seeded change, the checks recorded
# as catching it, against a scratch copy of /repo with the change applied (REPO=<copy>; /repo itself
# and /verif/evidence are not touched). Prints one line per (change, check): CAUGHT / MISSED.
# This is a rehearsal of sensitivity, not evidence.
HERE=$(cd "$(dirname "$0")/.." && pwd)
. "$HERE/tools/env.sh"
W=/dev/shm/regress-$$
trap 'rm -rf "$W"' EXIT
mkdir -p "$W/ev" "$W/rp"
names=("$@"); [ ${#names[@]} -gt 0 ] || names=($(ls "$HERE/seeded"))
miss=0
for n in "${names[@]}"; do
  d=$HERE/seeded/$n
  [ -f "$d/patch.diff" ] || continue
  rm -rf "$W/repo"; mkdir -p "$W/repo"
  git -C /repo archive HEAD | tar -x -C "$W/repo" || exit 2
  (cd "$W/repo" && patch -s -p1 < "$d/patch.diff") || { echo "$n: patch does not apply"; miss=1; continue; }
  props=$(python3 -c "
import json,sys,re
m=json.load(open(sys.argv[1]))
seen=[]
for c in m.get('caught_by',[]):
    for p in re.findall(r'C\d\d', c.split('(')[0]):
        if p not in seen: seen.append(p)
print(' '.join(seen))" "$d/meta.json")
  for id in $props; do
    out=$(REPO=$W/repo VERIF_EVIDENCE_DIR=$W/ev VERIF_REPLAYS_DIR=$W/rp "$HERE/check" $id ${RUNS:+--runs $RUNS} 2>&1); rc=$?
    sig=$(echo "$out" | grep -m1 -o 'signature="[^"]*"')
    case $rc in
      1) echo "$n $id CAUGHT $sig" ;;
      0) echo "$n $id MISSED"; miss=1 ;;
      *) echo "$n $id INFRA rc=$rc: $(echo "$out" | tail -2 | tr '\n' ' ' | cut -c1-200)"; miss=1 ;;
    esac
  done
done
exit $miss
