#!/bin/bash
# trymutant.sh <patch.diff> <prop> [<prop>...] : apply a patch to /repo, run the quick checks, revert.
# Evidence and replay files of these runs go to /dev/shm/trymutant (a rehearsal, not evidence).
P=$1; shift
git -C /repo apply "$P" || { echo "patch does not apply"; exit 2; }
trap 'git -C /repo checkout -- . ; git -C /repo clean -fdq' EXIT
mkdir -p /dev/shm/trymutant/ev /dev/shm/trymutant/rp
export VERIF_EVIDENCE_DIR=/dev/shm/trymutant/ev VERIF_REPLAYS_DIR=/dev/shm/trymutant/rp
for id in "$@"; do
  out=$(/verif/check $id --tier quick ${RUNS:+--runs $RUNS} 2>&1); rc=$?
  echo "== $id exit=$rc"; echo "$out" | grep -E "VIOLATION|class=|INFRA|BUILD-ERROR|tier=" | cut -c1-400 | head -8
done
