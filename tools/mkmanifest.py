#!/usr/bin/env python3
"""Regenerates /verif/MANIFEST.json from the table below (kept in one place so that the
manifest stays valid and consistent with what is built)."""
import json, sys, os

HERE = os.path.dirname(os.path.dirname(os.path.abspath(__file__)))

# id -> (engine, level, technique, level text, level note, design section)
CHECKS = {
 "C01": ("dbsim", "exploration", "deterministic simulation (seeded sequential histories, background work at operation boundaries) against an executable reference model",
         "Seeded sequential histories of Set/SetReader/Create/Get/GetReader/GetKeys/Delete over 2-5 keys (ASCII, multi-byte, long; contents around the 2048-byte chunk and 32 KiB buffer boundaries) run on a whole inline database inside the simulator; after every operation the result (bytes, error class) and a full read-back of all keys is compared with a ~200-line reference model. Fault kinds on top: nearly full disks, the caller's context (per-call contexts cancelled on return, calls with an already cancelled context), content readers that are read only several operations after they were handed out, created files whose remaining writes and Close come several operations later, size-aware sources of which a prefix was consumed, contents with runs of zero bytes. Exploration: a clean batch is evidence over the sampled histories, not a proof.",
         "real: store/transaction/cleaner/dir use cases, version lists, Badger, content files, worker pool; simulated: scheduler, clock, disk-usage report, random ids. Trusted: Badger, Go runtime, kernel FS.", "4/C01"),
 "C02": ("dbsim", "exploration", "deterministic simulation of sequential multi-transaction histories against a reference model of the four isolation levels, GC injected at every boundary",
         "One driver interleaves up to 6 open transactions of all four levels plus autocommit calls; after every step every open transaction and the autocommit caller read every key and GetKeys, each answer compared with the reference model; the collector (direct call and simulated GC timer) fires at seeded operation boundaries; a deep-chain profile builds hundreds of versions per key; per-call and dead caller contexts and held-open readers as in C01.",
         "as C01; the one documented relaxation: at ReadUncommitted a value committed after a younger uncommitted write may or may not count as more recent.", "4/C02"),
 "C03": ("dbsim", "exploration", "deterministic simulation with injected Badger update failures; reference model for commit atomicity and the write-write conflict rule",
         "C02-style histories biased to overlapping write sets, several writes per key, deletes and autocommit writes between Begin and Commit; error class of every Commit/Rollback and an autocommit read-back of all keys after each are compared with the model (serialization error iff a written key has a newer committed version; never at RU/RC); a separate fault configuration makes the Badger update of a commit (or write) fail, either before it applies anything or at its commit step after its function has run.",
         "as C01; Badger's own transaction atomicity is trusted.", "4/C03"),
 "C04": ("crashsim", "fault_enumeration", "crash-point enumeration: a child process runs a seeded workload under the simulator and SIGKILLs itself at the n-th persistent mutation, for every n; a fresh process recovers and is compared with the acknowledged-prefix model",
         "For each sampled workload (3-10 autocommit/transactional operations) every persistent-mutation point (file create/write/close/remove, mkdir, Badger update; optionally a torn final write) is used as a kill point of a real child process; a verifier process reopens the directory twice and compares with the model of acknowledged operations plus an atomic subset of in-flight ones; second-level crashes during recovery are enumerated too. A quarter of the workloads have two concurrent clients (a crash-free screening of 24 seeded schedules keeps the one with most overlapping same-key writes; every key is read back at quiescence before a last write), judged by a linearizability check across the crash; one workload in sixteen is a single commit of 1001-2500 keys with the crash points of its tail, another one in sixteen a commit larger than Badger accepts in one transaction (it must succeed or fail as a whole at every crash point). The instant right after every acknowledgement is a crash point as well.",
         "crash = process death (SIGKILL): everything handed to a completed system call survives; power loss is out of scope (fs_db never fsyncs content). Badger's recovery is trusted.", "4/C04"),
 "C05": ("dbsim+crashsim", "exploration", "deterministic simulation of histories with Close/Open at seeded positions and several databases per process; process-boundary segments run by fresh child processes",
         "Histories as C01-C03 with Close/Open inserted, transactions left open across Close, up to 3 database directories opened in one process in any order (sharing the process-global sequence counter), the same histories cut into segments executed by fresh processes, and databases opened while a second client writes to another open one under a seeded concurrent schedule; the reference model is carried across reopen and a final fresh-process open checks that later writes keep winning; bulk cases hold hundreds to 2400 records across reopenings.",
         "as C01.", "4/C05"),
 "C06": ("dbsim", "exploration", "deterministic simulation: seeded schedules (uniform with stickiness up to 0.99, PCT, one client stalled once or twice, one client stretched at every step of one kind) of 2-4 concurrent clients plus GC/cleaner actors; linearizability of the recorded call/return history checked with porcupine against the reference model; deadlock and panic detectors",
         "2-4 clients issue autocommit operations and RU/RC transactions on 2-3 shared keys while the GC timer and cleaner jobs run; every decision point (lock acquire and release, atomic, channel, timer, IO) is a scheduler choice; the history (stamped with global event numbers) is checked for a linearization with porcupine, plus direct lost/resurrected/missing-key rules, deadlock and panic detection; a third of the programs give every call its own context, cancelled on return; some programs start on a database that has never published anything; templates: transactions ending while others make their first write, two clients ending one transaction through a shared handle, pollers listing keys while a writer adds them; a fifth of the programs go through the external client over the simulated transport.",
         "interleavings at the granularity of synchronisation/atomic/IO operations; C15 checks data-race freedom separately. Badger, Go runtime trusted.", "4/C06"),
 "C07": ("dbsim", "exploration", "deterministic simulation of concurrently committing snapshot transactions under seeded schedules; history rule: overlapping snapshot writers of one key => at most one commit succeeds",
         "2-3 RR/SER transactions begun before the concurrent phase with intersecting write sets plus autocommit writers commit concurrently under seeded schedules; checked: at most one winner among overlapping writers of a key, losers fail with ErrTxSerialization and leave nothing visible, winners' values are in place at quiescence; one program in seven starts on an empty database.",
         "as C06.", "4/C07"),
 "C08": ("dbsim", "exploration", "deterministic simulation of snapshot readers racing with multi-key committers, autocommit writers and GC; interval-based snapshot-validity, atomic-visibility and repeatable-read rules over the recorded history",
         "Snapshot readers Begin during the concurrent phase and read all keys twice while committers commit unique values to two or more keys, an autocommit writer writes, the GC timer fires and the shared sequence counter occasionally leaps ahead by 2^20..2^32; the oracle uses only call/return stamps, so it is sound for any correct implementation.",
         "as C06.", "4/C08"),
 "C09": ("dbsim", "exploration", "deterministic simulation: the collector is fired at every position of sequential multi-transaction histories; read-back of all actors before and after each firing and for the rest of the history against the reference model",
         "C02 histories in which the collector runs (direct call and GC timer, several times in a row, right after Begin, with snapshot transactions of different ages open) followed by quiescence so that physical deletions have happened; all actors' reads immediately before and after must be identical and equal to the model, and the remaining history must still match. A quarter of the cases are concurrent: a collector actor overlapping snapshot readers and committers (C08's interval rules) or autocommit/RU/RC readers of a key under overwrite (C06's rules).",
         "as C01.", "4/C09"),
 "C10": ("dbsim+simgrpc", "fault_enumeration", "fault injection under deterministic simulation: ENOSPC positions (partial and all-or-nothing) on each subset of roots, failing/short source readers, context cancellation mid-upload, gRPC link cuts; oracle old-value-or-complete-new-value",
         "For sampled content lengths every fault position from the boundary set {0,1,chunk-1,chunk,chunk+1,L-1} plus seeded offsets is injected: simulated-disk ENOSPC on subsets of roots (honest and over-reporting disks), source reader errors and odd read shapes, cancellation at a source offset or between the Write calls of a created file, and link cuts through the in-process gRPC transport; an error must leave the previous value, nil must mean the complete value, and a root that really has room and reported more free space than the failing ones must be used.",
         "gRPC transport is an in-process stub whose semantics are pinned by a conformance probe against real grpc-go; the real grpc-go runtime is exercised only by the fault-free C11 tier.", "4/C10"),
 "C11": ("dbsim+simgrpc+grpcreal", "exploration", "differential deterministic simulation: the same seeded sequential history through the inline client, the external client over the in-process gRPC transport, and the external client over real loopback gRPC; pairwise equal values and error classes, and equal to the reference model",
         "Sequential histories of C01-C03/C13 (content sizes across the 2048-byte chunk boundary, all four levels) are executed through the three client stacks from one seed; a second generator pushes every exported sentinel under seeded wrapping through the real adapters; one case in eight adds 34-45 keys of about 1000 bytes (key listing and stream headers far beyond one chunk); calls with dead and per-call contexts as in C01; long-lived streams (NumWorkers+1 unread readers of a 3-6 MiB content) with 120 s call deadlines over real gRPC; two cases per run idle for 36 s of real time with streams open.",
         "grpcreal runs use real grpc-go with uncontrolled scheduling but sequential fault-free histories (outcomes are a function of the seed).", "4/C11"),
 "C12": ("asyncsim+dbsim", "exploration", "deterministic simulation of the writer against the storing goroutine: every synchronisation step of Write/Read/Close is a seeded scheduler choice; oracle Close returns and content = concatenation",
         "The read-writer behind Create runs alone (asyncsim) with a storing goroutine that drains it like io.Copy with seeded buffer sizes, and end to end through db.Create on a whole inline database (dbsim); write sizes from {0,1,7,511..513,32767..32769}; seeded uniform and PCT schedules with decision points before lock acquire and release, Cond.Wait entry, atomics; storing-side failures injected; one db case in eight hands 0.6-6 MiB to Write while the storing side is far behind and mostly about to fail. Close must return (deadlock detector) and nil must mean Get = concatenation of all writes.",
         "interleavings at the granularity of sync/atomic operations.", "4/C12"),
 "C13": ("dbsim+simgrpc", "exploration", "deterministic simulation of histories that keep using ended transaction handles while observers of all levels are open; reference model ErrTxNotFound / no effect; reopen",
         "After each Commit (success or serialization failure) and Rollback the handle keeps being used for every operation in seeded order while RU/RC/RR observers read everything; then close and reopen; requests naming unknown transactions (well-formed and malformed ids) through the raw gRPC stub; calls made with an already cancelled context (refused => no effect); a concurrent template: one client ends the transaction while another is still using the same handle, and after both have returned every call through the handle is judged. Every late call except Rollback must fail with ErrTxNotFound and no observer's read-back may change.",
         "as C01.", "4/C13"),
 "C14": ("dbsim", "exploration", "deterministic simulation of fault-free histories run to exact quiescence (no runnable goroutine, GC fired), then directory walk vs GetKeys/Get",
         "After any mix of overwrites, deletes, in-transaction overwrites, commits, failed commits and rollbacks all transactions are ended, the world is run to exact quiescence, the GC timer fires once, quiescence again (variants: Close with jobs queued, reopen; per-call caller contexts cancelled on return; the external client over the simulated transport, whose handler contexts end with each call); the regular files under all roots must be in bijection with the readable keys, byte-equal.",
         "quiescence is exact because every goroutine of the database is managed by the simulator.", "4/C14"),
 "C15": ("racesim", "exploration", "deterministic simulation under the Go race detector: seeded serialised schedules whose hand-off (raw pipe reads in norace code) is invisible to the detector, so the happens-before graph is the program's own",
         "Concurrent client programs (first use right after Open, C06-C08 style mixes, Create writer vs storing goroutine, pool programs) run built with -race; the scheduler parks goroutines on pipes through raw system calls, shims delegate to the real sync primitives; a report counts iff one of its stacks is in fs_db code outside the harness. Kinds: first use, mixes, Create, pool, reopen of an existing database against a microsecond collector, directory listings failing while clients write.",
         "the detector judges only accesses that occur in the explored executions.", "4/C15"),
 "C16": ("poolsim", "exploration", "deterministic simulation of the real worker pool with a simulated clock: seeded schedules over every lock/atomic/channel/timer step of senders, flusher and workers; oracle exactly-once at quiescence, Stop ordering, no panic/deadlock",
         "2-4 concurrent senders issue quick, gate-blocked and cancellation-ignoring jobs against 1-3 workers (gates open once every Send of the phase has returned: a Send must never need a job or a Stop to finish), the Send time-out is a scheduler-fired timer, Stop/Run cycles, Stop racing with senders, lifecycle calls in arbitrary sequential order and racing; at quiescence (all gates open, all timers fired, no further Send) every accepted job has run exactly once; Stop returns only after started jobs finished; deadlock, panic and runtime-fatal misuse detectors.",
         "Go channels/contexts trusted.", "4/C16"),
 "C17": ("dbsim", "exploration", "deterministic simulation of long sequential histories with the directory limit at its clamp, reopenings and collections; tree walk after every step",
         "150-600 writes interleaved with deletes, GC and reopenings with MaxDirCount at the clamp (config values below it are generated too) and 1-3 roots; after every step a walk checks path shape root/<uuid>/<uuid>, a directory per root, per-directory count <= limit, and reuse of directories that regained room; directory-creation failures (ENOSPC) are armed at seeded operations: the write that hits one fails, the following ones must succeed.",
         "as C01.", "4/C17"),
 "C19": ("crashsim segments", "exploration", "restart simulation: the current tree opens a database directory written by the pinned revision, restart round trips with arbitrary keys and sequence bases, stored-record corruption fault at load",
         "The persisted-state face of the property: a fixture directory written by the pinned revision is opened by the current tree and must show exactly what its writer acknowledged; restart round trips across process boundaries with arbitrary key bytes and sequence counters near 1, 2^32, 2^63; a stored record truncated or garbled on disk must make Open fail without panic when shorter than the header. The pure 'for every byte string' quantifier is not claimed.",
         "only behaviour reachable through restart on persisted state is decided; encode/decode as a pure function is out of this technique's reach.", "4/C19"),
}

NOT_APPLICABLE = {
 "C18": "pure sequential in-memory data structure (append/pop/collect/probe on a list+array); callers hold the locks, nothing in the statement can be scheduled, delayed, failed or crashed, so there is nothing for a simulator to decide; the same code is reached through the API by C02/C09's deep-chain profile",
 "C20": "pure function of (configuration file bytes, environment map): no schedule, clock, fault, I/O interleaving or multi-party behaviour for the property to depend on",
}

def main():
    claimed = [l.strip() for l in open(os.path.join(HERE, "tools", "claimed.txt")) if l.strip() and not l.startswith("#")]
    props = [json.loads(l)["id"] for l in open(os.path.join(HERE, "properties.jsonl"))]
    checks = []
    for pid in props:
        if pid not in claimed:
            continue
        eng, level, tech, text, note, ref = CHECKS[pid]
        checks.append({
            "property_id": pid,
            "quick_cmd": f"./check {pid} --tier quick",
            "thorough_cmd": f"./check {pid} --tier thorough",
            "evidence_file": f"/verif/evidence/{pid}.json",
            "replay_cmd_template": "./check --replay {path}",
            "engine": eng,
            "level_claimed": {"category": level, "text": text, "design_ref": "DESIGN.md §" + ref},
            "level_note": note,
            "technique": tech,
        })
    na = []
    for pid in props:
        if pid in claimed:
            continue
        if pid in NOT_APPLICABLE:
            na.append({"property_id": pid, "reason": NOT_APPLICABLE[pid]})
        else:
            na.append({"property_id": pid, "reason": "not claimed at this commit: the check for this property is designed (DESIGN.md §4) but not yet built/validated; nothing is asserted about it"})
    def served(ids):
        return [c for c in claimed if c in ids]
    engines = [
        {"name": "simrt+simgen", "path": "overlay/internal/verif/simrt, simgen/", "serves_properties": list(claimed), "kind_free_text": "deterministic scheduler, simulated clock, sync/atomic/channel/context shims, seeded map iteration, and the source rewriter that routes a scratch copy of fs_db (and of its ordered-map dependency) through them"},
        {"name": "poolsim / asyncsim", "path": "overlay/internal/verif/harness/c16_pool.go, c12_async.go", "serves_properties": served(["C12", "C15", "C16"]), "kind_free_text": "the real worker pool / read-writer alone under the scheduler"},
        {"name": "dbsim", "path": "overlay/internal/verif/harness (world.go, seq.go, conc.go, ops.go, refmodel)", "serves_properties": served(["C01","C02","C03","C05","C06","C07","C08","C09","C10","C11","C12","C13","C14","C15","C17","C19"]), "kind_free_text": "whole inline database (real Badger, real files, real pool and GC timer) inside the simulator; sequential histories against the reference model, concurrent histories judged by interval rules and porcupine"},
        {"name": "simos / simdisk / simbadger", "path": "overlay/internal/verif/{simos,simdisk,simbadger}", "serves_properties": served(["C03","C04","C10","C12","C01"]), "kind_free_text": "fault seams: root capacities, ENOSPC with partial writes, failing Badger updates, persistent-mutation counter and kill point"},
        {"name": "simgrpc", "path": "overlay/internal/verif/harness/simgrpc.go", "serves_properties": served(["C10","C11","C13"]), "kind_free_text": "in-process grpc.ClientConnInterface/ServiceRegistrar transport with link cuts; real generated stubs, delivery service, adapters, interceptors"},
        {"name": "grpcreal", "path": "overlay/internal/verif/harness/c11.go (plain-flavour binary)", "serves_properties": served(["C11"]), "kind_free_text": "fidelity tier: app.New/Run on a loopback port and external.Open, unmodified sources, sequential fault-free histories"},
        {"name": "crashsim", "path": "overlay/internal/verif/harness/c04.go, c19.go", "serves_properties": served(["C04","C05","C19"]), "kind_free_text": "child processes that SIGKILL themselves at the n-th persistent mutation, verifier processes, process-boundary segments, pinned-revision fixture"},
        {"name": "racesim", "path": "overlay/internal/verif/harness/c15.go, simrt/handoff_pipe.go", "serves_properties": served(["C15"]), "kind_free_text": "the same simulator built with -race and a pipe hand-off that the race detector cannot see"},
    ]
    m = {
        "version": 1,
        "setup_cmd": "./tools/setup.sh",
        "hooks": {
            "guard": "verif",
            "enable": "no source commit in /repo carries hooks: every check copies /repo's working tree to /dev/shm, rewrites imports/go/select/map-range there with /verif/simgen and adds /verif/overlay (build tag verif exists only in that scratch copy)",
            "baseline_off_cmd": "cd /repo && GOFLAGS=-mod=mod GOPROXY=off GOSUMDB=off go test -mod=mod -json -vet=off -count=1 -timeout 25m ./...",
            "source_commits": [],
            "add_only": True,
        },
        "engines": engines,
        "checks": checks,
        "not_applicable": na,
        "notes": "Technique family: deterministic simulation with fault injection. Exit codes: 0 held, 1 VIOLATION line, 2 infrastructure. Known findings: /verif/known_findings.json. fix: commits in /repo are listed there as 'fixed'.",
    }
    json.dump(m, open(os.path.join(HERE, "MANIFEST.json"), "w"), indent=1)
    print("claimed:", claimed)

if __name__ == "__main__":
    main()
