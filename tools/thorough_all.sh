#!/bin/bash
# thorough_all.sh [<prop>...] : runs the thorough tier of the given (default: every claimed) property, one after the other (for vp run)
# evidence and replays of such a run land in the run's snapshot, not in /verif
cd "$(dirname "$0")/.."
./tools/setup.sh || exit 2
PROPS=${*:-$(grep -v '^#' tools/claimed.txt)}
for p in $PROPS; do
  echo "=== $p $(date +%T)"
  ./check $p --tier thorough 2>&1 | grep -v "^  \[" | cut -c1-500 | tail -15
  echo "=== $p exit=${PIPESTATUS[0]}"
done
