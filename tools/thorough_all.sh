#!/bin/bash
# runs the thorough tier of every claimed property, one after the other (for vp run)
cd "$(dirname "$0")/.."
./tools/setup.sh || exit 2
for p in $(grep -v '^#' tools/claimed.txt); do
  echo "=== $p $(date +%T)"
  ./check $p --tier thorough 2>&1 | grep -v "^  \[" | cut -c1-500 | tail -15
  echo "=== $p exit=${PIPESTATUS[0]}"
done
