#!/usr/bin/env python3-vt
import json, jsonschema, sys, glob
m=json.load(open('/verif/MANIFEST.json')); s=json.load(open('/root/.vp/MANIFEST.schema.json'))
jsonschema.validate(m,s); print("manifest valid: checks", len(m['checks']), "not_applicable", len(m['not_applicable']))
s=json.load(open('/root/.vp/EVIDENCE.schema.json'))
for c in m['checks']:
    p=c['property_id']
    try:
        e=json.load(open(f'/verif/evidence/{p}.json')); jsonschema.validate(e,s)
        print(p,'evidence valid', e['tier'], e['coverage']['evaluations'], e['coverage']['distinct_nontrivial'], round(e['wall_s'],1))
    except Exception as ex:
        print(p,'EVIDENCE PROBLEM', str(ex)[:200])
