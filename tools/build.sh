#!/bin/bash
# build.sh <scratch-dir> <flavour> : copy /repo's working tree into <scratch-dir>/repo, rewrite it
# (sim, race) or leave it untouched (plain), add the overlay, build the harness binary
# <scratch-dir>/bin/fsim-<flavour>. Exit 2 on any infrastructure problem.
set -u
S=$1; FLAVOUR=${2:-sim}
. "$(dirname "$0")/env.sh"
die() { echo "BUILD-ERROR: $*" >&2; exit 2; }
mkdir -p "$S/bin" || die "mkdir $S"
SIMGEN=$VERIF_HOME/bin/simgen
if [ ! -x "$SIMGEN" ]; then
  (cd "$VERIF_HOME/simgen" && go build -o "$SIMGEN" .) || die "build simgen"
fi
R=$S/repo-$FLAVOUR
rm -rf "$R"; mkdir -p "$R"
rsync -a --exclude .git --exclude testStorage --exclude test_db --exclude bin "$REPO"/ "$R"/ || die "copy repo"
# overlay: simulator runtime, shims, harness, three tiny in-package accessor files
rsync -a "$VERIF_HOME/overlay/" "$R"/ || die "copy overlay"
MODCACHE=$(go env GOMODCACHE)
if [ "$FLAVOUR" != plain ]; then
  # vendor the ordered-map dependency into the module so that its lock is visible to the scheduler
  C=$MODCACHE/github.com/glebziz/containers@v1.0.2
  [ -d "$C" ] || die "containers module not in cache"
  mkdir -p "$R/internal/verif/containers"
  cp -r "$C/omap" "$C/list" "$C/internal" "$R/internal/verif/containers/" || die "vendor containers"
  chmod -R u+w "$R/internal/verif/containers"
  find "$R/internal/verif/containers" -name '*_test.go' -delete
  find "$R/internal/verif/containers" -name '*.go' -exec sed -i 's#"github.com/glebziz/containers/#"github.com/glebziz/fs_db/internal/verif/containers/#' {} +
fi
# porcupine for the linearizability checker
grep -q anishathalye/porcupine "$R/go.mod" || sed -i 's#^require (#require (\n\tgithub.com/anishathalye/porcupine v1.3.0#;t' "$R/go.mod"
TAGS=verif
case $FLAVOUR in
  sim)   ;;
  race)  TAGS="verif,simpipe" ;;
  plain) TAGS="verif,plainflavour" ;;
  *) die "unknown flavour $FLAVOUR" ;;
esac
cd "$R" || die cd
if [ "$FLAVOUR" != plain ]; then
  "$SIMGEN" -root "$R" -tags "$TAGS" -manifest "$S/simgen-$FLAVOUR.json" || die "simgen failed"
fi
RACE=""; [ "$FLAVOUR" = race ] && RACE="-race"
go build $RACE -tags "$TAGS" -o "$S/bin/fsim-$FLAVOUR" ./internal/verif/cmd/fsim 2>"$S/build-$FLAVOUR.log" || { cat "$S/build-$FLAVOUR.log" >&2; die "go build ($FLAVOUR) failed"; }
echo "$S/bin/fsim-$FLAVOUR"
