# common environment for every go invocation (offline)
export GOFLAGS=-mod=mod GOPROXY=off GOSUMDB=off GOTOOLCHAIN=local
export GONOSUMDB='*' GONOSUMCHECK=1 GOPRIVATE='*'
export VERIF_HOME=${VERIF_HOME:-/verif}
export REPO=${REPO:-/repo}
