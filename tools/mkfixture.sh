#!/bin/bash
# Regenerates /verif/fixtures/pinned-42f3f3c from the pinned revision of fs_db (auditable: the
# checks themselves only ever read the committed bytes, never .git).
set -eu
HERE=$(cd "$(dirname "$0")/.." && pwd)
. "$HERE/tools/env.sh"
REV=42f3f3c
S=/dev/shm/verif-fixture-$$
trap 'rm -rf "$S"' EXIT
mkdir -p "$S/src"
git -C /repo archive $REV | tar -x -C "$S/src"
mkdir -p "$S/src/cmd/verif-fixture"
cp "$HERE/tools/fixture/main.go" "$S/src/cmd/verif-fixture/main.go"
(cd "$S/src" && go build -o "$S/fixture" ./cmd/verif-fixture)
OUT=$HERE/fixtures/pinned-$REV
rm -rf "$OUT"; mkdir -p "$HERE/fixtures"
FIXTURE_REVISION=$REV "$S/fixture" "$S/out"
# Badger keeps sparse multi-gigabyte value-log/memtable files; store the directory as a tarball
# written with --sparse (a few tens of kilobytes)
mkdir -p "$OUT"
tar --sparse -czf "$OUT/data.tar.gz" -C "$S/out" db root0 root1
cp "$S/out/ack.json" "$OUT/ack.json"
ls -la "$OUT"; du -sh "$S/out"
