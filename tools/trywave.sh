#!/bin/bash
# trywave.sh <patch.diff> <prop> [<prop>...] : apply a patch to a scratch copy of /repo HEAD and run the quick checks
# against that copy (REPO=<copy>); /repo, evidence/ and replays/ are not touched. A rehearsal, not evidence.
HERE=$(cd "$(dirname "$0")/.." && pwd)
P=$1; shift
W=/dev/shm/trywave-$$
trap 'rm -rf "$W"' EXIT
mkdir -p "$W/repo" "$W/ev" "$W/rp"
git -C /repo archive HEAD | tar -x -C "$W/repo" || exit 2
(cd "$W/repo" && patch -s -p1 < "$P") || { echo "patch does not apply"; exit 2; }
for id in "$@"; do
  out=$(REPO=$W/repo VERIF_EVIDENCE_DIR=$W/ev VERIF_REPLAYS_DIR=$W/rp "$HERE/check" $id --tier ${TIER:-quick} ${RUNS:+--runs $RUNS} 2>&1); rc=$?
  echo "== $id exit=$rc $(echo "$out" | grep -E "^C[0-9]+ tier=" | grep -o "runs=.*" | cut -c1-120)"
  echo "$out" | grep -E "VIOLATION|class=|INFRA|BUILD-ERROR" | cut -c1-420 | head -${LINES_MAX:-4}
done
