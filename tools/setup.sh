#!/bin/bash
# setup: build the rewriter and warm the Go build cache (offline).
set -u
HERE=$(cd "$(dirname "$0")/.." && pwd)
export VERIF_HOME=$HERE
. "$HERE/tools/env.sh"
mkdir -p "$HERE/bin" "$HERE/evidence" "$HERE/replays"
(cd "$HERE/simgen" && go build -o "$HERE/bin/simgen" .) || { echo "setup: simgen build failed" >&2; exit 2; }
S=/dev/shm/verif-setup-$$
trap 'rm -rf "$S"' EXIT
for f in sim plain race; do
  "$HERE/tools/build.sh" "$S" $f >/dev/null || { echo "setup: build $f failed" >&2; exit 2; }
done
echo "setup ok"
