// simgen rewrites a scratch copy of fs_db so that every source of nondeterminism goes through
// the simulator runtime (see /verif/DESIGN.md §2.2). It never touches /repo.
//
//	simgen -root <scratch copy> [-manifest out.json]
//
// Passes: import rewrite (sync, sync/atomic, time, context everywhere in scope; os, gopsutil,
// badger, math/rand/v2 in their seam packages; the omap dependency is vendored into the module
// so that its lock becomes visible), `go` statements, channel operations and select, map
// ranges. Anything it cannot translate faithfully is an error (exit 2), never a silent skip.
package main

import (
	"bytes"
	"encoding/json"
	"flag"
	"fmt"
	"go/ast"
	"go/format"
	"go/token"
	"go/types"
	"os"
	"path/filepath"
	"sort"
	"strconv"
	"strings"

	"golang.org/x/tools/go/ast/astutil"
	"golang.org/x/tools/go/packages"
)

const (
	mod     = "github.com/glebziz/fs_db"
	rtPath  = mod + "/internal/verif/simrt"
	rtAlias = "_simrt"
)

type fileStats struct {
	Imports   int `json:"imports,omitempty"`
	GoStmts   int `json:"go_stmts,omitempty"`
	Selects   int `json:"selects,omitempty"`
	ChanOps   int `json:"chan_ops,omitempty"`
	MapRanges int `json:"map_ranges,omitempty"`
}

var (
	stats  = map[string]*fileStats{}
	failed []string
)

func fail(fset *token.FileSet, pos token.Pos, format string, a ...any) {
	failed = append(failed, fmt.Sprintf("%s: %s", fset.Position(pos), fmt.Sprintf(format, a...)))
}

// import rewrite rules: stdlib/dependency path -> shim, optionally restricted to a package dir.
type rule struct {
	from, to string
	onlyIn   string // package path suffix ("" = everywhere in scope)
}

var rules = []rule{
	{"sync", mod + "/internal/verif/ssync", ""},
	{"sync/atomic", mod + "/internal/verif/satomic", ""},
	{"time", mod + "/internal/verif/stime", ""},
	{"context", mod + "/internal/verif/sctx", ""},
	{"os", mod + "/internal/verif/simos", "internal/utils/os"},
	{"github.com/shirou/gopsutil/disk", mod + "/internal/verif/simdisk", "internal/utils/disk"},
	{"github.com/dgraph-io/badger/v3", mod + "/internal/verif/simbadger", "internal/db/badger"},
	{"math/rand/v2", mod + "/internal/verif/simrand", "internal/di"},
	{"github.com/glebziz/containers/omap", mod + "/internal/verif/containers/omap", ""},
	{"github.com/glebziz/containers/list", mod + "/internal/verif/containers/list", ""},
	{"github.com/glebziz/containers/internal/iter", mod + "/internal/verif/containers/internal/iter", ""},
	{"github.com/glebziz/containers/internal/node", mod + "/internal/verif/containers/internal/node", ""},
}

// packages whose `time`/`context` imports are left alone (pure configuration parsing, generated code)
func skipTimeCtx(pkgPath string) bool {
	return strings.HasSuffix(pkgPath, "/config") || strings.Contains(pkgPath, "/internal/verif/containers")
}

func inScope(pkgPath string) bool {
	if !strings.HasPrefix(pkgPath, mod) {
		return false
	}
	rel := strings.TrimPrefix(strings.TrimPrefix(pkgPath, mod), "/")
	switch {
	case strings.Contains(rel, "mocks"),
		strings.HasPrefix(rel, "internal/proto"),
		strings.HasPrefix(rel, "cmd/"),
		strings.HasPrefix(rel, "example/"),
		strings.HasPrefix(rel, "pkg/test"):
		return false
	case strings.HasPrefix(rel, "internal/verif/containers"):
		return true
	case strings.HasPrefix(rel, "internal/verif"):
		return false
	}
	return true
}

func main() {
	root := flag.String("root", "", "scratch copy of fs_db")
	manifest := flag.String("manifest", "", "write rewrite statistics here")
	tags := flag.String("tags", "verif", "build tags")
	flag.Parse()
	if *root == "" {
		fmt.Fprintln(os.Stderr, "simgen: -root required")
		os.Exit(2)
	}
	cfg := &packages.Config{
		Mode: packages.NeedName | packages.NeedFiles | packages.NeedCompiledGoFiles | packages.NeedSyntax |
			packages.NeedTypes | packages.NeedTypesInfo | packages.NeedImports,
		Dir:        *root,
		BuildFlags: []string{"-tags=" + *tags},
		Env:        append(os.Environ(), "GOFLAGS=-mod=mod", "GOPROXY=off", "GOSUMDB=off"),
	}
	pkgs, err := packages.Load(cfg, ".", "./config/...", "./internal/...", "./pkg/...")
	if err != nil {
		fmt.Fprintln(os.Stderr, "simgen: load:", err)
		os.Exit(2)
	}
	n := 0
	for _, p := range pkgs {
		if !inScope(p.PkgPath) {
			continue
		}
		if len(p.Errors) > 0 {
			for _, e := range p.Errors {
				fmt.Fprintln(os.Stderr, "simgen: package error:", e)
			}
			os.Exit(2)
		}
		for i, f := range p.Syntax {
			name := p.CompiledGoFiles[i]
			if strings.HasSuffix(name, "_test.go") || strings.HasSuffix(name, ".pb.go") {
				continue
			}
			rel, _ := filepath.Rel(*root, name)
			st := &fileStats{}
			rewriteFile(p, f, st)
			if *st == (fileStats{}) {
				continue
			}
			stats[rel] = st
			var buf bytes.Buffer
			if err := format.Node(&buf, p.Fset, f); err != nil {
				fmt.Fprintf(os.Stderr, "simgen: print %s: %v\n", rel, err)
				os.Exit(2)
			}
			if err := os.WriteFile(name, buf.Bytes(), 0o644); err != nil {
				fmt.Fprintln(os.Stderr, "simgen:", err)
				os.Exit(2)
			}
			n++
		}
	}
	if len(failed) > 0 {
		for _, f := range failed {
			fmt.Fprintln(os.Stderr, "simgen: cannot translate:", f)
		}
		os.Exit(2)
	}
	if *manifest != "" {
		keys := make([]string, 0, len(stats))
		for k := range stats {
			keys = append(keys, k)
		}
		sort.Strings(keys)
		tot := fileStats{}
		for _, k := range keys {
			s := stats[k]
			tot.Imports += s.Imports
			tot.GoStmts += s.GoStmts
			tot.Selects += s.Selects
			tot.ChanOps += s.ChanOps
			tot.MapRanges += s.MapRanges
		}
		out := map[string]any{"files": stats, "total": tot, "files_rewritten": n}
		b, _ := json.MarshalIndent(out, "", " ")
		_ = os.WriteFile(*manifest, b, 0o644)
	}
}

type rewriter struct {
	p      *packages.Package
	f      *ast.File
	st     *fileStats
	needRT bool
	tmp    int
}

func rewriteFile(p *packages.Package, f *ast.File, st *fileStats) {
	r := &rewriter{p: p, f: f, st: st}
	rel := strings.TrimPrefix(strings.TrimPrefix(p.PkgPath, mod), "/")

	// pass 1: imports
	for _, imp := range f.Imports {
		path, _ := strconv.Unquote(imp.Path.Value)
		for _, ru := range rules {
			if ru.from != path {
				continue
			}
			if ru.onlyIn != "" && rel != ru.onlyIn {
				continue
			}
			if (path == "time" || path == "context") && skipTimeCtx(p.PkgPath) {
				continue
			}
			if imp.Name == nil {
				base := path
				if i := strings.LastIndex(base, "/"); i >= 0 {
					base = base[i+1:]
				}
				switch path {
				case "github.com/dgraph-io/badger/v3":
					base = "badger"
				case "math/rand/v2":
					base = "rand"
				}
				imp.Name = ast.NewIdent(base)
			}
			imp.Path.Value = strconv.Quote(ru.to)
			imp.EndPos = 0
			st.Imports++
		}
	}

	// passes 2-4: statements
	astutil.Apply(f, r.pre, nil)

	if r.needRT {
		astutil.AddNamedImport(p.Fset, f, rtAlias, rtPath)
	}
}

func (r *rewriter) fresh(prefix string) *ast.Ident {
	r.tmp++
	return ast.NewIdent(fmt.Sprintf("_%s%d", prefix, r.tmp))
}

func rtCall(fn string, args ...ast.Expr) *ast.CallExpr {
	return &ast.CallExpr{Fun: &ast.SelectorExpr{X: ast.NewIdent(rtAlias), Sel: ast.NewIdent(fn)}, Args: args}
}

func (r *rewriter) isBuiltin(id *ast.Ident, name string) bool {
	if id.Name != name {
		return false
	}
	obj := r.p.TypesInfo.Uses[id]
	_, ok := obj.(*types.Builtin)
	return ok
}

func (r *rewriter) typeOf(e ast.Expr) types.Type {
	if tv, ok := r.p.TypesInfo.Types[e]; ok {
		return tv.Type
	}
	return nil
}

func (r *rewriter) pre(c *astutil.Cursor) bool {
	switch n := c.Node().(type) {
	case *ast.GoStmt:
		repl := r.goStmt(n)
		c.Replace(repl)
		r.st.GoStmts++
		r.needRT = true
		// children (the function literal body, hoisted arguments) are rewritten by re-applying
		astutil.Apply(repl, r.pre, nil)
		return false

	case *ast.LabeledStmt:
		if sel, ok := n.Stmt.(*ast.SelectStmt); ok {
			blk := r.selectStmt(sel, n.Label)
			c.Replace(blk)
			astutil.Apply(blk, r.preSkipSelectHead, nil)
			return false
		}

	case *ast.SelectStmt:
		blk := r.selectStmt(n, nil)
		c.Replace(blk)
		astutil.Apply(blk, r.preSkipSelectHead, nil)
		return false

	case *ast.SendStmt:
		r.st.ChanOps++
		r.needRT = true
		repl := &ast.ExprStmt{X: rtCall("Send", n.Chan, n.Value)}
		c.Replace(repl)
		astutil.Apply(repl, r.pre, nil)
		return false

	case *ast.AssignStmt:
		// v, ok := <-ch
		if len(n.Lhs) == 2 && len(n.Rhs) == 1 {
			if u, ok := n.Rhs[0].(*ast.UnaryExpr); ok && u.Op == token.ARROW {
				r.st.ChanOps++
				r.needRT = true
				n.Rhs[0] = rtCall("Recv2", u.X)
			}
		}

	case *ast.ValueSpec:
		if len(n.Names) == 2 && len(n.Values) == 1 {
			if u, ok := n.Values[0].(*ast.UnaryExpr); ok && u.Op == token.ARROW {
				r.st.ChanOps++
				r.needRT = true
				n.Values[0] = rtCall("Recv2", u.X)
			}
		}

	case *ast.UnaryExpr:
		if n.Op == token.ARROW {
			r.st.ChanOps++
			r.needRT = true
			repl := rtCall("Recv", n.X)
			c.Replace(repl)
			astutil.Apply(repl, r.pre, nil)
			return false
		}

	case *ast.CallExpr:
		if id, ok := n.Fun.(*ast.Ident); ok && len(n.Args) == 1 && r.isBuiltin(id, "close") {
			r.st.ChanOps++
			r.needRT = true
			repl := rtCall("Close", n.Args[0])
			c.Replace(repl)
			astutil.Apply(repl, r.pre, nil)
			return false
		}

	case *ast.RangeStmt:
		t := r.typeOf(n.X)
		if t == nil {
			fail(r.p.Fset, n.Pos(), "range expression without type information")
			return true
		}
		switch t.Underlying().(type) {
		case *types.Map:
			r.st.MapRanges++
			r.needRT = true
			n.X = rtCall("MapIter", n.X)
		case *types.Chan:
			fail(r.p.Fset, n.Pos(), "range over a channel is not translated")
		}
	}
	return true
}

// preSkipSelectHead is pre for the freshly generated select block: everything inside is
// ordinary code again (case bodies may contain nested selects, go statements, ...); the
// generated head contains only runtime calls, which pre leaves alone.
func (r *rewriter) preSkipSelectHead(c *astutil.Cursor) bool { return r.pre(c) }

func (r *rewriter) goStmt(n *ast.GoStmt) ast.Stmt {
	call := n.Call
	var pre []ast.Stmt
	// evaluate function value and arguments now, as the go statement does
	if _, isLit := call.Fun.(*ast.FuncLit); !isLit {
		switch fun := call.Fun.(type) {
		case *ast.SelectorExpr:
			// method value or package function: keep expression unless receiver has side effects; bind receiver
			if _, isIdent := fun.X.(*ast.Ident); !isIdent {
				// a.b.c.Method: bind the method value
				id := r.fresh("f")
				pre = append(pre, &ast.AssignStmt{Lhs: []ast.Expr{id}, Tok: token.DEFINE, Rhs: []ast.Expr{call.Fun}})
				call = &ast.CallExpr{Fun: id, Args: call.Args, Ellipsis: call.Ellipsis}
			}
		case *ast.Ident:
		default:
			id := r.fresh("f")
			pre = append(pre, &ast.AssignStmt{Lhs: []ast.Expr{id}, Tok: token.DEFINE, Rhs: []ast.Expr{call.Fun}})
			call = &ast.CallExpr{Fun: id, Args: call.Args, Ellipsis: call.Ellipsis}
		}
	}
	if len(call.Args) > 0 {
		newArgs := make([]ast.Expr, len(call.Args))
		for i, a := range call.Args {
			id := r.fresh("a")
			pre = append(pre, &ast.AssignStmt{Lhs: []ast.Expr{id}, Tok: token.DEFINE, Rhs: []ast.Expr{a}})
			newArgs[i] = id
		}
		call = &ast.CallExpr{Fun: call.Fun, Args: newArgs, Ellipsis: call.Ellipsis}
		if call.Ellipsis != token.NoPos {
			call.Ellipsis = 1
		}
	}
	lit := &ast.FuncLit{
		Type: &ast.FuncType{Params: &ast.FieldList{}},
		Body: &ast.BlockStmt{List: []ast.Stmt{&ast.ExprStmt{X: call}}},
	}
	goCall := &ast.ExprStmt{X: rtCall("Go", lit)}
	if len(pre) == 0 {
		return goCall
	}
	return &ast.BlockStmt{List: append(pre, goCall)}
}

func (r *rewriter) selectStmt(n *ast.SelectStmt, label *ast.Ident) ast.Stmt {
	r.st.Selects++
	r.needRT = true
	var (
		head       []ast.Stmt
		cases      []ast.Expr
		clauses    []ast.Stmt
		hasDefault bool
		sv         = r.fresh("s")
	)
	idx := 0
	for _, cl := range n.Body.List {
		cc := cl.(*ast.CommClause)
		if cc.Comm == nil {
			hasDefault = true
			clauses = append(clauses, &ast.CaseClause{
				List: []ast.Expr{&ast.UnaryExpr{Op: token.SUB, X: &ast.BasicLit{Kind: token.INT, Value: "1"}}},
				Body: cc.Body,
			})
			continue
		}
		ch := r.fresh("c")
		var body []ast.Stmt
		switch comm := cc.Comm.(type) {
		case *ast.SendStmt:
			head = append(head, &ast.AssignStmt{Lhs: []ast.Expr{ch}, Tok: token.DEFINE, Rhs: []ast.Expr{comm.Chan}})
			cases = append(cases, rtCall("CaseSend", ch, comm.Value))
		case *ast.ExprStmt: // <-ch
			u, ok := comm.X.(*ast.UnaryExpr)
			if !ok || u.Op != token.ARROW {
				fail(r.p.Fset, comm.Pos(), "unexpected select communication")
				continue
			}
			head = append(head, &ast.AssignStmt{Lhs: []ast.Expr{ch}, Tok: token.DEFINE, Rhs: []ast.Expr{u.X}})
			cases = append(cases, rtCall("CaseRecv", ch))
		case *ast.AssignStmt: // v := <-ch ; v, ok := <-ch ; v = <-ch
			u, ok := comm.Rhs[0].(*ast.UnaryExpr)
			if !ok || u.Op != token.ARROW || len(comm.Rhs) != 1 {
				fail(r.p.Fset, comm.Pos(), "unexpected select communication")
				continue
			}
			head = append(head, &ast.AssignStmt{Lhs: []ast.Expr{ch}, Tok: token.DEFINE, Rhs: []ast.Expr{u.X}})
			cases = append(cases, rtCall("CaseRecv", ch))
			fn := "Got"
			if len(comm.Lhs) == 2 {
				fn = "Got2"
			}
			as := &ast.AssignStmt{Lhs: comm.Lhs, Tok: comm.Tok, Rhs: []ast.Expr{rtCall(fn, ch, sv)}}
			body = append(body, as)
			if comm.Tok == token.DEFINE {
				// keep "declared and not used" away for variables the body ignores
				for _, l := range comm.Lhs {
					if id, ok := l.(*ast.Ident); ok && id.Name != "_" {
						body = append(body, &ast.AssignStmt{Lhs: []ast.Expr{ast.NewIdent("_")}, Tok: token.ASSIGN, Rhs: []ast.Expr{ast.NewIdent(id.Name)}})
					}
				}
			}
		default:
			fail(r.p.Fset, cc.Pos(), "unexpected select communication")
			continue
		}
		clauses = append(clauses, &ast.CaseClause{
			List: []ast.Expr{&ast.BasicLit{Kind: token.INT, Value: strconv.Itoa(idx)}},
			Body: append(body, cc.Body...),
		})
		idx++
	}
	def := "false"
	if hasDefault {
		def = "true"
	}
	selCall := rtCall("Select",
		&ast.CompositeLit{
			Type: &ast.ArrayType{Elt: &ast.SelectorExpr{X: ast.NewIdent(rtAlias), Sel: ast.NewIdent("SelCase")}},
			Elts: cases,
		},
		ast.NewIdent(def))
	head = append(head, &ast.AssignStmt{Lhs: []ast.Expr{sv}, Tok: token.DEFINE, Rhs: []ast.Expr{selCall}})
	// a select whose clauses all end in terminating statements is itself terminating ("missing
	// return" otherwise); a switch is only if it has a default clause: add one that cannot be reached
	clauses = append(clauses, &ast.CaseClause{Body: []ast.Stmt{&ast.ExprStmt{X: &ast.CallExpr{Fun: ast.NewIdent("panic"),
		Args: []ast.Expr{&ast.BasicLit{Kind: token.STRING, Value: strconv.Quote("simrt: Select returned a case the select statement does not have")}}}}}})
	var sw ast.Stmt = &ast.SwitchStmt{
		Tag:  &ast.SelectorExpr{X: sv, Sel: ast.NewIdent("I")},
		Body: &ast.BlockStmt{List: clauses},
	}
	if label != nil {
		sw = &ast.LabeledStmt{Label: label, Stmt: sw}
	}
	return &ast.BlockStmt{List: append(head, sw)}
}
